// C14 runtime harness: behaviours that need pika threads (valid pika thread ids), with a watchdog.
// usage: c14_rt <seed> <iterations>
// Prints OUT RT <case> ... lines; every case is a monitor (property evaluated on the implementation).
//   f5        token with a state but no source and no request: ~stop_callback on a pika thread returns
//   f5req     stop already requested: constructor runs the callback, destructor returns
//   race      N pika tasks + M plain OS threads call request_stop concurrently: exactly one true; every
//             registered callback ran exactly once; callbacks registered afterwards run in the constructor
//   dtorwait  destructor on another pika task / OS thread waits for the running callback; a callback
//             deregistering itself does not block
#include "common/ctl.hpp"

#include <pika/execution.hpp>
#include <pika/init.hpp>
#include <pika/stop_token.hpp>
#include <pika/thread.hpp>

#include <unistd.h>
#include <atomic>
#include <chrono>
#include <cstdio>
#include <thread>
#include <vector>

namespace ex = pika::execution::experimental;
namespace tt = pika::this_thread::experimental;
using namespace std::chrono_literals;

static std::atomic<long> g_progress{0};
static std::atomic<char const*> g_phase{"start"};

template <typename F>
static auto spawn(ex::thread_pool_scheduler& sched, F&& f)
{
    return ex::schedule(sched) | ex::then(std::forward<F>(f)) | ex::ensure_started();
}

int main(int argc, char** argv)
{
    std::uint64_t seed = argc > 1 ? std::strtoull(argv[1], nullptr, 10) : 1;
    int iters = argc > 2 ? std::atoi(argv[2]) : 100;
    std::thread([&] {
        long seen = -1;
        int same = 0;
        for (;;)
        {
            std::this_thread::sleep_for(250ms);
            long cur = g_progress.load();
            same = (cur == seen) ? same + 1 : 0;
            seen = cur;
            if (same >= 32)    // 8 s without progress
            {
                std::printf("OUT RT %s hang=1\n", g_phase.load());
                std::fflush(stdout);
                _exit(4);
            }
        }
    }).detach();
    char* av[] = {argv[0], (char*) "--pika:threads=4", nullptr};
    pika::start(2, av);
    ex::thread_pool_scheduler sched{};
    vctl::Rng rng(seed);

    // ---- f5: no source, no request -------------------------------------------------------
    {
        g_phase = "f5";
        pika::stop_token t;
        {
            pika::stop_source s;
            t = s.get_token();
        }
        int ran = 0;
        tt::sync_wait(spawn(sched, [&] {
            {
                pika::stop_callback cb(t, [&] { ++ran; });
            }
            ++g_progress;
        }));
        std::printf("OUT RT f5 hang=0 ran=%d possible=%d\n", ran, (int) t.stop_possible());
        std::fflush(stdout);
    }
    // ---- f5req: already requested ---------------------------------------------------------
    {
        g_phase = "f5req";
        pika::stop_source s;
        pika::stop_token t = s.get_token();
        bool r = s.request_stop();
        int ran = 0, ran_at_ctor = -1;
        tt::sync_wait(spawn(sched, [&] {
            {
                pika::stop_callback cb(t, [&] { ++ran; });
                ran_at_ctor = ran;
            }
            ++g_progress;
        }));
        std::printf("OUT RT f5req hang=0 first=%d ran=%d ran_at_ctor=%d\n", (int) r, ran, ran_at_ctor);
        std::fflush(stdout);
    }
    // ---- race -----------------------------------------------------------------------------
    {
        g_phase = "race";
        int bad_winners = 0, bad_runs = 0, bad_late = 0, bad_flag = 0;
        for (int it = 0; it < iters; ++it)
        {
            pika::stop_source s;
            pika::stop_token t = s.get_token();
            int const NC = 1 + (int) rng.below(6);
            std::vector<std::atomic<int>> runs(NC);
            for (auto& r : runs) r = 0;
            using F = std::function<void()>;
            std::vector<std::unique_ptr<pika::stop_callback<F>>> cbs;
            for (int c = 0; c < NC; ++c)
                cbs.push_back(std::make_unique<pika::stop_callback<F>>(t, F([&runs, c] { runs[c]++; })));
            int const NP = 1 + (int) rng.below(4), NO = (int) rng.below(3);
            std::atomic<int> wins{0}, go{0};
            std::vector<std::thread> os;
            for (int k = 0; k < NO; ++k)
                os.emplace_back([&] {
                    while (!go.load()) std::this_thread::yield();
                    pika::stop_source c = s;
                    if (c.request_stop()) wins++;
                });
            std::vector<ex::unique_any_sender<>> ps;
            for (int k = 0; k < NP; ++k)
                ps.emplace_back(spawn(sched, [&] {
                    while (!go.load()) pika::this_thread::yield();
                    pika::stop_source c = s;
                    if (c.request_stop()) wins++;
                }));
            go = 1;
            for (auto& p : ps) tt::sync_wait(std::move(p));
            for (auto& o : os) o.join();
            if (wins.load() != 1) ++bad_winners;
            if (!t.stop_requested() || !t.stop_possible()) ++bad_flag;
            for (auto& r : runs)
                if (r.load() != 1) ++bad_runs;
            int late = 0;
            {
                pika::stop_callback cb(t, [&] { ++late; });
                if (late != 1) ++bad_late;
            }
            if (s.request_stop()) ++bad_winners;
            cbs.clear();
            ++g_progress;
        }
        std::printf("OUT RT race hang=0 iters=%d bad_winners=%d bad_runs=%d bad_late=%d bad_flag=%d\n", iters,
            bad_winners, bad_runs, bad_late, bad_flag);
        std::fflush(stdout);
    }
    // ---- dtorwait -------------------------------------------------------------------------
    {
        g_phase = "dtorwait";
        int early = 0, selfblock = 0;
        int n = iters / 4 + 1;
        for (int it = 0; it < n; ++it)
        {
            bool requester_os = rng.chance(1, 2), destroyer_os = rng.chance(1, 2);
            pika::stop_source s;
            pika::stop_token t = s.get_token();
            std::atomic<bool> in_cb{false}, cb_done{false}, dtor_early{false};
            using F = std::function<void()>;
            auto* cb = new pika::stop_callback<F>(t, F([&] {
                in_cb = true;
                auto until = std::chrono::steady_clock::now() + 3ms;
                while (std::chrono::steady_clock::now() < until)
                {
                    if (pika::threads::detail::get_self_ptr()) pika::this_thread::yield();
                    else std::this_thread::yield();
                }
                cb_done = true;
            }));
            auto req = [&] { s.request_stop(); };
            auto del = [&] {
                while (!in_cb.load())
                {
                    if (pika::threads::detail::get_self_ptr()) pika::this_thread::yield();
                    else std::this_thread::yield();
                }
                delete cb;
                if (!cb_done.load()) dtor_early = true;
            };
            std::thread o1, o2;
            ex::unique_any_sender<> p1, p2;
            if (requester_os) o1 = std::thread(req); else p1 = spawn(sched, req);
            if (destroyer_os) o2 = std::thread(del); else p2 = spawn(sched, del);
            if (requester_os) o1.join(); else tt::sync_wait(std::move(p1));
            if (destroyer_os) o2.join(); else tt::sync_wait(std::move(p2));
            if (dtor_early) ++early;
            // a callback that deregisters itself (on a pika task and on an OS thread)
            {
                pika::stop_source s2;
                pika::stop_token t2 = s2.get_token();
                pika::stop_callback<F>* self = nullptr;
                std::atomic<int> ran{0};
                self = new pika::stop_callback<F>(t2, F([&] {
                    auto* p = self;
                    self = nullptr;
                    ran++;
                    delete p;
                }));
                if (rng.chance(1, 2)) tt::sync_wait(spawn(sched, [&] { s2.request_stop(); }));
                else std::thread([&] { s2.request_stop(); }).join();
                if (ran.load() != 1) ++selfblock;
            }
            ++g_progress;
        }
        std::printf("OUT RT dtorwait hang=0 iters=%d dtor_early=%d self_dereg_bad=%d\n", n, early, selfblock);
        std::fflush(stdout);
    }
    g_phase = "shutdown";
    pika::finalize();
    int rc = pika::stop();
    std::printf("OUT RT done rc=%d\n", rc);
    return 0;
}
