// C11 end-to-end harness: ex::bulk on the REAL pool (pika::start, thread_pool_scheduler) and the
// generic fallback, observed with per-index counters, per-chunk records (hooks 1101-1104), a
// counting receiver, predecessor values, throwing index sets and a watchdog.
// usage: c11_e2e <seed> <ncases> <start_id> <threads> <tier: 0 quick | 1 thorough> <huge: 0|1>
// per case:  RUN E2E <id> ...            (before the case starts; for crash/hang attribution)
//            IN  E2E <id> <type> <bits> <W> <n hex> <throwspec> <observed chunk indices>   |  IN GEN <id> <n> <throwspec>
//            OUT E2E <id> c= k= parts= chunks=idx:b:e:calls:threw,.. kind=V|E               |  OUT GEN <id> calls= last= inorder= kind=
//            OBS E2E <id> key=value ...  (what the monitor in tools/props/c11.py evaluates)
// a case whose completion does not arrive in time prints "OBS E2E <id> hang=1 ..." and exits with code 7.
#include <pika/execution.hpp>
#include <pika/init.hpp>
#include <pika/runtime.hpp>

#include <algorithm>
#include <atomic>
#include <chrono>
#include <cinttypes>
#include <condition_variable>
#include <cstdint>
#include <cstdio>
#include <cstdlib>
#include <deque>
#include <exception>
#include <functional>
#include <memory>
#include <mutex>
#include <string>
#include <thread>
#include <tuple>
#include <unistd.h>
#include <vector>

namespace ex = pika::execution::experimental;

struct Rng
{
    std::uint64_t s;
    explicit Rng(std::uint64_t seed) : s(seed * 0x9E3779B97F4A7C15ull + 0x1234567ull) {}
    std::uint64_t next()
    {
        std::uint64_t z = (s += 0x9E3779B97F4A7C15ull);
        z = (z ^ (z >> 30)) * 0xBF58476D1CE4E5B9ull;
        z = (z ^ (z >> 27)) * 0x94D049BB133111EBull;
        return z ^ (z >> 31);
    }
    std::uint64_t below(std::uint64_t n) { return n ? next() % n : 0; }
};

struct bulk_exc
{
    std::uint64_t i;
};

constexpr int MAXSLOT = 128;
constexpr std::size_t MAXCHUNK = 8192;
constexpr std::uint64_t COUNTER_CAP = 1ull << 22;

struct alignas(64) Acc
{
    std::atomic<std::uint64_t> entered{0}, exited{0}, sum{0}, throws{0}, late{0}, oob{0}, argbad{0};
};
struct ChunkRec
{
    std::uint64_t idx = 0, worker = 0, b = 0, e = 0;
    std::atomic<std::uint64_t> calls{0};
    std::atomic<int> threw{0};
};

struct Ctx
{
    std::uint64_t n = 0;
    int mode = 0;    // throwing: 0 none, 1 all, 2 set, 3 mod
    std::vector<std::uint64_t> tset;
    std::uint64_t tm = 1, tr = 0;
    int cost = 0;
    bool with_vals = false;
    std::unique_ptr<std::atomic<std::uint8_t>[]> counters;
    std::uint64_t ncounters = 0;
    Acc acc[MAXSLOT];
    std::unique_ptr<ChunkRec[]> chunks{new ChunkRec[MAXCHUNK]};
    std::atomic<std::size_t> nchunks{0};
    std::atomic<std::uint64_t> hc{0}, hk{0};
    std::atomic<int> h1101{0};
    std::mutex pm;
    std::vector<std::pair<std::uint32_t, std::uint32_t>> parts;
    std::atomic<int> nvalue{0}, nerror{0}, nstopped{0};
    std::atomic<int> val_ok{1};
    std::string err = "none";
    std::uint64_t snap_in = 0, snap_out = 0;
    std::atomic<bool> completed{false};
    std::atomic<std::uint64_t> local{~0ull};
    std::mutex m;
    std::condition_variable cv;

    bool throws(std::uint64_t i) const
    {
        switch (mode)
        {
        case 1: return true;
        case 2:
            for (auto x : tset)
                if (x == i) return true;
            return false;
        case 3: return i % tm == tr;
        default: return false;
        }
    }
    std::uint64_t total(std::atomic<std::uint64_t> Acc::*f) const
    {
        std::uint64_t s = 0;
        for (auto const& a : acc) s += (a.*f).load(std::memory_order_relaxed);
        return s;
    }
    void signal_done()
    {
        snap_in = total(&Acc::entered);
        snap_out = total(&Acc::exited);
        completed.store(true, std::memory_order_release);
        std::lock_guard l(m);
        cv.notify_all();
    }
};

static std::atomic<Ctx*> g_ctx{nullptr};
static std::atomic<int> g_nslots{0};
static thread_local int t_slot = -1;
static thread_local ChunkRec* t_chunk = nullptr;
static thread_local std::uint64_t t_perturb = 0x1234;
static int slot()
{
    if (t_slot < 0) t_slot = g_nslots.fetch_add(1) % MAXSLOT;
    return t_slot;
}
static ChunkRec g_dummy;

static void hook(int site, void const*, std::uint64_t a, std::uint64_t b)
{
    Ctx* c = g_ctx.load(std::memory_order_acquire);
    if (!c) return;
    switch (site)
    {
    case 1101:
        c->hc = a;
        c->hk = b;
        c->h1101++;
        c->local = pika::get_local_worker_thread_num();
        break;
    case 1102:
    {
        std::lock_guard l(c->pm);
        if (c->parts.size() < 4096) c->parts.emplace_back((std::uint32_t)(b >> 32), (std::uint32_t) b);
        break;
    }
    case 1103:
    {
        std::size_t j = c->nchunks.fetch_add(1);
        t_chunk = j < MAXCHUNK ? &c->chunks[j] : &g_dummy;
        t_chunk->idx = a;
        t_chunk->worker = b;
        break;
    }
    case 1104:
        if (t_chunk)
        {
            t_chunk->b = a;
            t_chunk->e = b;
        }
        break;
    case 1701:
    case 1702:
    case 1105:
    case 1106:
    case 1107:
    {
        // perturbation only: a short, pseudo-random pause
        t_perturb = t_perturb * 6364136223846793005ull + 1442695040888963407ull;
        unsigned r = (unsigned) (t_perturb >> 59);
        if (r < 3)
            for (volatile int k = 0; k < (int) (r + 1) * 200; ++k) {}
        else if (r == 3)
            std::this_thread::yield();
        break;
    }
    default: break;
    }
}

// the callable given to bulk
// single-writer counters (one OS thread per slot, a task never migrates inside f): no locked RMW
static inline void bump(std::atomic<std::uint64_t>& x, std::uint64_t d = 1)
{
    x.store(x.load(std::memory_order_relaxed) + d, std::memory_order_relaxed);
}

struct Body
{
    Ctx* c;
    template <typename I>
    void common(I i0) const
    {
        std::uint64_t i = static_cast<std::uint64_t>(i0);
        Acc& a = c->acc[slot()];
        bump(a.entered);
        if (c->completed.load(std::memory_order_relaxed)) bump(a.late);
        if (i0 < 0 || i >= c->n) bump(a.oob);
        else if (i < c->ncounters)
        {
            auto& ctr = c->counters[i];
            if (ctr.load(std::memory_order_relaxed) < 200) ctr.fetch_add(1, std::memory_order_relaxed);
        }
        bump(a.sum, i);
        if (t_chunk) bump(t_chunk->calls);
        if (c->cost)
            for (volatile int k = 0; k < c->cost * (int) (1 + (i & 7)); ++k) {}
        bool th = c->mode != 0 && c->throws(i);
        if (th)
        {
            bump(a.throws);
            if (t_chunk) t_chunk->threw.store(1, std::memory_order_relaxed);
        }
        if (c->completed.load(std::memory_order_relaxed)) bump(a.late);
        bump(a.exited);
        if (th) throw bulk_exc{i};
    }
    template <typename I>
    void operator()(I i) const
    {
        common(i);
    }
    template <typename I>
    void operator()(I i, int& x, std::string& s) const
    {
        if (x != 42 || s != "c11-values") c->acc[slot()].argbad.fetch_add(1, std::memory_order_relaxed);
        common(i);
    }
};

struct Rcv
{
    Ctx* c;
    void set_value() && noexcept
    {
        if (c->with_vals) c->val_ok = 0;
        c->nvalue++;
        c->signal_done();
    }
    void set_value(int x, std::string s) && noexcept
    {
        if (!c->with_vals || x != 42 || s != "c11-values") c->val_ok = 0;
        c->nvalue++;
        c->signal_done();
    }
    void set_error(std::exception_ptr ep) && noexcept
    {
        std::string p = "other";
        try
        {
            if (ep) std::rethrow_exception(ep);
            p = "null";
        }
        catch (bulk_exc const& e)
        {
            char b[32];
            std::snprintf(b, sizeof b, "%" PRIx64, e.i);
            p = b;
        }
        catch (...)
        {
        }
        if (c->nerror.fetch_add(1) == 0) c->err = p;
        c->signal_done();
    }
    template <class E>
    void set_error(E&&) && noexcept
    {
        if (c->nerror.fetch_add(1) == 0) c->err = "other";
        c->signal_done();
    }
    void set_stopped() && noexcept
    {
        c->nstopped++;
        c->signal_done();
    }
    constexpr ex::empty_env get_env() const noexcept { return {}; }
};

static std::deque<std::function<void()>> g_ring;    // keeps contexts and operation states alive for a while
static void retain(std::function<void()> del)
{
    g_ring.push_back(std::move(del));
    while (g_ring.size() > 6)
    {
        g_ring.front()();
        g_ring.pop_front();
    }
}

static std::string g_in_prefix;    // for the watchdog

template <typename T>
static void start_case(Ctx* c, ex::thread_pool_scheduler sched, int pred, T n, unsigned hintw)
{
    // pred: 0 schedule(sched) | 1 transfer_just(sched, 42, string) | 2 schedule(with_hint(sched, thread hintw)) | 3 generic
    switch (pred)
    {
    case 0:
    {
        auto* os = new auto(ex::connect(ex::bulk(ex::schedule(sched), n, Body{c}), Rcv{c}));
        retain([os] { delete os; });
        ex::start(*os);
        break;
    }
    case 1:
    {
        auto* os = new auto(
            ex::connect(ex::bulk(ex::transfer_just(sched, 42, std::string("c11-values")), n, Body{c}), Rcv{c}));
        retain([os] { delete os; });
        ex::start(*os);
        break;
    }
    case 2:
    {
        auto hs = ex::with_hint(sched,
            pika::execution::thread_schedule_hint(pika::execution::thread_schedule_hint_mode::thread, (std::int16_t) hintw));
        auto* os = new auto(ex::connect(ex::bulk(ex::schedule(hs), n, Body{c}), Rcv{c}));
        retain([os] { delete os; });
        ex::start(*os);
        break;
    }
    default:
    {
        auto* os = new auto(ex::connect(ex::bulk(ex::just(42, std::string("c11-values")), n, Body{c}), Rcv{c}));
        retain([os] { delete os; });
        ex::start(*os);
        break;
    }
    }
}

int main(int argc, char** argv)
{
    std::uint64_t seed = argc > 1 ? std::strtoull(argv[1], nullptr, 10) : 1;
    int ncases = argc > 2 ? std::atoi(argv[2]) : 50;
    int start = argc > 3 ? std::atoi(argv[3]) : 0;
    int threads = argc > 4 ? std::atoi(argv[4]) : 4;
    int tier = argc > 5 ? std::atoi(argv[5]) : 0;
    int huge = argc > 6 ? std::atoi(argv[6]) : 0;    // run the fixed table of shapes beyond 2^31 (ids 0..10)
    std::string targ = "--pika:threads=" + std::to_string(threads);
    char* av[] = {argv[0], (char*) targ.c_str(), nullptr};
    int ac = 2;
    pika::start(ac, av);
    pika::verif::hook.store(&hook);
    ex::thread_pool_scheduler sched{};
    std::uint64_t const W = (std::uint64_t) threads;

    static char const* tnames[8] = {"i8", "u8", "i16", "u16", "i32", "u32", "i64", "u64"};
    static int const tbits[8] = {8, 8, 16, 16, 32, 32, 64, 64};
    static std::uint64_t const tmax[8] = {0x7f, 0xff, 0x7fff, 0xffff, 0x7fffffffull, 0xffffffffull, 0x7fffffffffffffffull,
        0xffffffffffffffffull};

    // fixed table: the huge shapes (ids 0..), then random cases
    struct Fixed
    {
        int ty;
        std::uint64_t n;
        int mode;    // 1 = every call throws (cheap), 0 = nothing throws (n calls!)
        int tiermin;
    };
    std::vector<Fixed> fixed = {
        {5, 0x80000001ull, 1, 0}, {7, 0x100000005ull, 1, 0}, {4, 0x7fffffffull, 1, 0}, {5, 0xffffffffull, 1, 0},
        {7, 0xffffffffffffffffull, 1, 0}, {6, 0x7fffffffffffffffull, 1, 0}, {7, 0x100000005ull, 0, 0},
        {5, 0x80000001ull, 0, 0}, {4, 0x7fffffffull, 0, 1}, {5, 0xffffffffull, 0, 1}, {6, 0x100000000ull, 0, 1}};

    for (int id = start; id < ncases; ++id)
    {
        Rng rng(seed * 1000003ull + (std::uint64_t) id * 131 + (std::uint64_t) threads);
        auto* c = new Ctx;
        int ty, pred;
        unsigned hintw = (unsigned) rng.below(W);
        std::string spec = "none";
        if ((std::size_t) id < fixed.size())
        {
            Fixed const& f = fixed[id];
            if (f.tiermin > tier || !huge)
            {
                delete c;
                continue;
            }
            ty = f.ty;
            c->n = f.n;
            c->mode = f.mode;
            spec = f.mode ? "all" : "none";
            pred = 0;
        }
        else
        {
            std::uint64_t r = rng.below(100);
            pred = r < 45 ? 0 : r < 70 ? 1 : r < 85 ? 2 : 3;
            ty = (int) rng.below(8);
#if defined(C11_WIDE_ONLY)
            // fallback build for a source whose pool bulk does not compile for 8/16-bit shapes
            ty = 4 + ty % 4;
#endif
            int bits = tbits[ty];
            unsigned __int128 v = 0;
            switch (rng.below(7))
            {
            case 0: v = rng.below(4); break;    // 0,1,2,3
            case 1: v = rng.below(41); break;
            case 2:
            {
                int kk = (int) rng.below(12);
                v = (unsigned __int128) 8 * W * ((unsigned __int128) 1 << kk) + rng.below(5);
                v = v >= 2 ? v - 2 : 0;
                break;
            }
            case 3: v = W * (1 + rng.below(10)) + rng.below(3); break;
            case 4: v = tmax[ty] - rng.below(3); break;
            case 5: v = rng.below(tier ? 3000000 : 300000); break;
            default: v = (unsigned __int128) 1 << rng.below((std::uint64_t) bits + 1); break;
            }
            std::uint64_t cap = tier ? (1ull << 24) : (1ull << 20);
            if (pred == 3) cap = 1ull << 14;
            if (v > tmax[ty]) v = tmax[ty] - rng.below(3);
            if (v > cap) v = cap - rng.below(1000);
            c->n = (std::uint64_t) v;
            std::uint64_t m = rng.below(100);
            if (m < 50) {}
            else if (m < 58)
            {
                c->mode = 1;
                spec = "all";
            }
            else if (m < 88)
            {
                c->mode = 2;
                int cnt = 1 + (int) rng.below(3);
                spec = "set:";
                for (int j = 0; j < cnt; ++j)
                {
                    std::uint64_t x = rng.below(4) == 0 ? c->n + rng.below(3) : rng.below(c->n + 1);
                    if (rng.below(5) == 0 && c->n > 0) x = c->n - 1;
                    c->tset.push_back(x);
                    char b[32];
                    std::snprintf(b, sizeof b, "%s%" PRIx64, j ? "." : "", x);
                    spec += b;
                }
            }
            else
            {
                c->mode = 3;
                c->tm = 2 + rng.below(997);
                c->tr = rng.below(c->tm);
                spec = "mod:" + std::to_string(c->tm) + ":" + std::to_string(c->tr);
            }
            if (rng.below(4) == 0 && c->n <= 50000) c->cost = 20 + (int) rng.below(400);
        }
        c->with_vals = (pred == 1 || pred == 3);
        c->ncounters = std::min<std::uint64_t>(c->n, COUNTER_CAP);
        c->counters.reset(new std::atomic<std::uint8_t>[c->ncounters ? c->ncounters : 1]);
        for (std::uint64_t i = 0; i < c->ncounters; ++i) c->counters[i].store(0, std::memory_order_relaxed);
        t_chunk = nullptr;

        char head[256];
        std::snprintf(head, sizeof head, "E2E %d type=%s bits=%d W=%" PRIu64 " n=%" PRIx64 " pred=%d throw=%s cost=%d hint=%u", id,
            tnames[ty], tbits[ty], W, c->n, pred, spec.c_str(), c->cost, hintw);
        std::printf("RUN %s\n", head);
        std::fflush(stdout);
        g_ctx.store(c, std::memory_order_release);
        auto t0 = std::chrono::steady_clock::now();
        switch (ty)
        {
#if !defined(C11_WIDE_ONLY)
        case 0: start_case<std::int8_t>(c, sched, pred, (std::int8_t) c->n, hintw); break;
        case 1: start_case<std::uint8_t>(c, sched, pred, (std::uint8_t) c->n, hintw); break;
        case 2: start_case<std::int16_t>(c, sched, pred, (std::int16_t) c->n, hintw); break;
        case 3: start_case<std::uint16_t>(c, sched, pred, (std::uint16_t) c->n, hintw); break;
#endif
        case 4: start_case<std::int32_t>(c, sched, pred, (std::int32_t) c->n, hintw); break;
        case 5: start_case<std::uint32_t>(c, sched, pred, (std::uint32_t) c->n, hintw); break;
        case 6: start_case<std::int64_t>(c, sched, pred, (std::int64_t) c->n, hintw); break;
        default: start_case<std::uint64_t>(c, sched, pred, (std::uint64_t) c->n, hintw); break;
        }
        bool done;
        {
            std::unique_lock l(c->m);
            // generous: 30 s + 1 s per 2^24 calls
            // generous: ordinary cases take milliseconds; n calls of a cheap f for the huge non-throwing shapes
            auto limit = std::chrono::seconds(c->mode == 0 && c->n > (1ull << 24) ? 40 + (long) std::min<std::uint64_t>(c->n >> 25, 900) : 12);
            done = c->cv.wait_for(l, limit, [&] { return c->completed.load(std::memory_order_acquire); });
        }
        double secs = std::chrono::duration<double>(std::chrono::steady_clock::now() - t0).count();
        if (!done)
        {
            std::printf("OBS E2E %d hang=1 n=%" PRIx64 " type=%s W=%" PRIu64 " pred=%d throw=%s calls=%" PRIu64 " h1101=%d c=%" PRIx64
                        " k=%" PRIu64 "\n",
                id, c->n, tnames[ty], W, pred, spec.c_str(), c->total(&Acc::entered), c->h1101.load(), c->hc.load(),
                c->hk.load());
            std::fflush(stdout);
            _exit(7);
        }
        // grace: let every worker that is still inside finish() or (under a defect) inside f get out
        for (int spin = 0; spin < 200; ++spin)
        {
            if (c->total(&Acc::entered) == c->total(&Acc::exited) && spin >= 2) break;
            std::this_thread::sleep_for(std::chrono::microseconds(50));
        }
        std::this_thread::sleep_for(std::chrono::microseconds(c->cost ? 300 : 30));
        g_ctx.store(nullptr, std::memory_order_release);

        std::uint64_t calls = c->total(&Acc::entered);
        std::uint64_t dup = 0, miss = 0;
        for (std::uint64_t i = 0; i < c->ncounters; ++i)
        {
            auto v = c->counters[i].load(std::memory_order_relaxed);
            if (v > 1) ++dup;
            if (v == 0) ++miss;
        }
        char const* sig = c->nvalue ? "V" : c->nerror ? "E" : c->nstopped ? "S" : "none";
        int nsig = c->nvalue + c->nerror + c->nstopped;
        // chunk records sorted by index
        std::size_t nch = std::min<std::size_t>(c->nchunks.load(), MAXCHUNK);
        std::vector<ChunkRec*> recs;
        for (std::size_t j = 0; j < nch; ++j) recs.push_back(&c->chunks[j]);
        std::sort(recs.begin(), recs.end(), [](ChunkRec* a, ChunkRec* b) { return a->idx < b->idx; });
        std::uint64_t mask = tbits[ty] == 64 ? ~0ull : ((1ull << tbits[ty]) - 1);
        if (pred != 3)
        {
            std::string in = "IN E2E " + std::to_string(id) + " " + tnames[ty] + " " + std::to_string(tbits[ty]) + " " +
                std::to_string(W) + " ";
            char b[64];
            std::snprintf(b, sizeof b, "%" PRIx64, c->n);
            in += b;
            in += " " + spec + " ";
            std::string out = "OUT E2E " + std::to_string(id);
            if (c->n == 0) { in += "-"; out += " c=- k=- parts=- chunks=- kind="; out += sig; }
            else
            {
                std::snprintf(b, sizeof b, " c=%" PRIx64 " k=%" PRIu64 " parts=", c->hc.load(), c->hk.load());
                out += b;
                for (std::size_t w = 0; w < c->parts.size(); ++w)
                    out += (w ? "," : "") + std::to_string(c->parts[w].first) + "-" + std::to_string(c->parts[w].second);
                if (c->parts.empty()) out += "-";
                out += " chunks=";
                if (recs.empty()) { in += "-"; out += "-"; }
                for (std::size_t j = 0; j < recs.size(); ++j)
                {
                    in += (j ? "," : "") + std::to_string(recs[j]->idx);
                    std::snprintf(b, sizeof b, "%s%" PRIu64 ":%" PRIx64 ":%" PRIx64 ":%" PRIx64 ":%d", j ? "," : "", recs[j]->idx,
                        recs[j]->b & mask, recs[j]->e & mask, recs[j]->calls.load(), recs[j]->threw.load());
                    out += b;
                }
                out += " kind=";
                out += sig;
            }
            std::printf("%s\n%s\n", in.c_str(), out.c_str());
        }
        else
        {
            // generic bulk: runs inline on this thread; calls must be 0,1,2,... up to the first throwing index
            std::uint64_t last = calls ? calls - 1 : 0;
            bool inorder = true;
            for (std::uint64_t i = 0; i < c->ncounters; ++i)
            {
                auto v = c->counters[i].load(std::memory_order_relaxed);
                if ((i < calls) != (v == 1)) inorder = false;
            }
            std::printf("IN GEN %d %" PRIu64 " %s\n", id, c->n, spec.c_str());
            std::printf("OUT GEN %d calls=%" PRIu64 " last=%s inorder=%d kind=%s%s\n", id, calls,
                calls ? std::to_string(last).c_str() : "-", inorder ? 1 : 0, sig,
                c->nerror ? std::to_string(std::strtoull(c->err.c_str(), nullptr, 16)).c_str() : "");
        }
        std::printf("OBS E2E %d hang=0 type=%s bits=%d W=%" PRIu64 " n=%" PRIx64 " pred=%d throw=%s sig=%s nsig=%d val=%d err=%s calls=%" PRIu64
                    " dup=%" PRIu64 " miss=%" PRIu64 " counted=%" PRIu64 " oob=%" PRIu64 " argbad=%" PRIu64 " late=%" PRIu64
                    " snap_in=%" PRIu64 " snap_out=%" PRIu64 " exited=%" PRIu64 " sum=%" PRIx64 " throws=%" PRIu64
                    " nchunks=%zu h1101=%d local=%" PRIu64 " secs=%.3f\n",
            id, tnames[ty], tbits[ty], W, c->n, pred, spec.c_str(), sig, nsig, c->val_ok.load(), c->err.c_str(), calls, dup, miss,
            c->ncounters, c->total(&Acc::oob), c->total(&Acc::argbad), c->total(&Acc::late), c->snap_in, c->snap_out,
            c->total(&Acc::exited), c->total(&Acc::sum), c->total(&Acc::throws), c->nchunks.load(), c->h1101.load(),
            c->local.load(), secs);
        std::fflush(stdout);
        retain([c] { delete c; });
    }
    pika::verif::hook.store(nullptr);
    pika::finalize();
    return pika::stop();
}
