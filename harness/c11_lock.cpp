// C11 LOCKSTEP harness: the REAL task_function::operator() / finish() / store_exception() /
// do_work_chunk() of thread_pool_scheduler_bulk.hpp and the real contiguous_index_queues, run by
// plain std::threads whose interleaving at the park points (queue LOAD/CAS 1701/1702, finish 1105,
// store_exception 1106/1107, entry/exit of f, the spawn loop's queue.empty()) is chosen by the
// controller; the extracted model (Model/Bulk.v, lock_trace) replays the schedule step for step.
// The spawn loop of bulk_receiver::set_value needs the pika scheduler (register_work), so it is
// emulated here with the real pieces (get_chunk_size, get_num_chunks, init_queue, queue.empty(),
// task_function::finish()); the real loop itself is exercised by harness/c11_e2e.cpp.
// usage: c11_lock <seed> <ncases> [<start_id>]
#include "common/ctl.hpp"

#include <pika/execution.hpp>
#include <pika/init.hpp>

#include <atomic>
#include <cinttypes>
#include <exception>
#include <memory>
#include <sstream>
#include <thread>
#include <tuple>
#include <vector>

namespace ex = pika::execution::experimental;

struct bulk_exc
{
    std::uint64_t i;
};

struct Log
{
    std::vector<std::uint64_t> calls, exits, thrown;
    std::vector<std::string> sigs;
    std::vector<std::uint32_t> fin;
};
static Log* g_log = nullptr;
static std::vector<std::uint64_t> const* g_throwset = nullptr;
static int g_throwmode = 0;    // 0 none, 1 all, 2 set

static bool throws(std::uint64_t i)
{
    if (g_throwmode == 1) return true;
    if (g_throwmode == 2)
        for (auto x : *g_throwset)
            if (x == i) return true;
    return false;
}

struct rcv
{
    void set_value() && noexcept
    {
        g_log->sigs.push_back("V:" + std::to_string(g_log->calls.size()) + ":" + std::to_string(g_log->exits.size()));
    }
    void set_error(std::exception_ptr ep) && noexcept
    {
        std::string p = "Eother";
        try
        {
            if (ep) std::rethrow_exception(ep);
            p = "Enone";
        }
        catch (bulk_exc const& e)
        {
            p = "E" + std::to_string(e.i);
        }
        catch (...)
        {
        }
        g_log->sigs.push_back(p + ":" + std::to_string(g_log->calls.size()) + ":" + std::to_string(g_log->exits.size()));
    }
    template <class E>
    void set_error(E&&) && noexcept
    {
        g_log->sigs.push_back("Eother:0:0");
    }
    void set_stopped() && noexcept { g_log->sigs.push_back("S:0:0"); }
    constexpr ex::empty_env get_env() const noexcept { return {}; }
};

struct body
{
    void operator()(std::uint32_t i) const
    {
        pika::verif::point(1190, nullptr, i);
        g_log->calls.push_back(i);
        pika::verif::point(1191, nullptr, i);
        g_log->exits.push_back(i);
        if (throws(i))
        {
            g_log->thrown.push_back(i);
            throw bulk_exc{i};
        }
    }
};

// only these sites are park points; 1105 also records the order of the decrements
static void filter_hook(int site, void const* obj, std::uint64_t a, std::uint64_t b)
{
    switch (site)
    {
    case 1105:
        vctl::Controller::hookfn(site, obj, a, b);
        if (vctl::t_id >= 0 && g_log) g_log->fin.push_back((std::uint32_t) a);
        break;
    case 1701:
    case 1702:
    case 1106:
    case 1107:
    case 1190:
    case 1191:
    case 1192: vctl::Controller::hookfn(site, obj, a, b); break;
    default: break;
    }
}

static int site_code(int site, bool is_local)
{
    switch (site)
    {
    case 0: return is_local ? 11 : 10;
    case 1701: return 1;
    case 1702: return 2;
    case 1190: return 3;
    case 1191: return 4;
    case 1105: return 5;
    case 1106: return 6;
    case 1107: return 7;
    case 1192: return 9;
    default: return 99;
    }
}

int main(int argc, char** argv)
{
    std::uint64_t seed = argc > 1 ? std::strtoull(argv[1], nullptr, 10) : 1;
    int ncases = argc > 2 ? std::atoi(argv[2]) : 100;
    int start = argc > 3 ? std::atoi(argv[3]) : 0;
    char* av[] = {argv[0], (char*) "--pika:threads=1", nullptr};
    int ac = 2;
    pika::start(ac, av);
    ex::thread_pool_scheduler sched{};

    using T = std::uint32_t;
    using sender_t = decltype(ex::bulk(ex::schedule(sched), T(1), body{}));
    using OS = decltype(ex::connect(std::declval<sender_t>(), rcv{}));
    using BR = typename OS::bulk_receiver;
    using TF = typename BR::task_function;

    for (int cs = start; cs < ncases; ++cs)
    {
        vctl::Rng rng(seed * 1000003ull + (std::uint64_t) cs);
        int W = 1 + (int) rng.below(5);
        T n;
        switch (rng.below(4))
        {
        case 0: n = 1 + (T) rng.below(6); break;
        case 1: n = (T) (8 * W) + (T) rng.below(3) - 1; break;
        case 2: n = 1 + (T) rng.below(40); break;
        default: n = (T) W + (T) rng.below(2 * W + 1); break;
        }
        if (n < 1) n = 1;
        int loc = (int) rng.below(W);
        std::vector<std::uint64_t> tset;
        std::string spec = "none";
        g_throwmode = 0;
        switch (rng.below(5))
        {
        case 0:
            g_throwmode = 1;
            spec = "all";
            break;
        case 1:
        case 2:
        {
            g_throwmode = 2;
            int m = 1 + (int) rng.below(3);
            spec = "set:";
            for (int j = 0; j < m; ++j)
            {
                std::uint64_t x = rng.below(n + 2);
                tset.push_back(x);
                char b[32];
                std::snprintf(b, sizeof b, "%s%" PRIx64, j ? "." : "", x);
                spec += b;
            }
            break;
        }
        default: break;
        }
        g_throwset = &tset;
        Log log;
        g_log = &log;

        OS os = ex::connect(ex::bulk(ex::schedule(sched), n, body{}), rcv{});
        os.num_worker_threads = (std::size_t) W;
        {
            decltype(os.queues) q(W);
            os.queues.swap(q);
        }
        os.tasks_remaining = static_cast<decltype(os.tasks_remaining.load())>(W);

        std::vector<char> spawned(W, 0);
        std::atomic<bool> abort_unspawned{false};
        vctl::Controller ctl(W, 0, 99999);
        pika::verif::hook.store(&filter_hook, std::memory_order_release);
        std::vector<std::thread> th;
        for (int t = 0; t < W; ++t)
            th.emplace_back([&, t] {
                ctl.begin(t);
                if (t == loc)
                {
                    // bulk_receiver::set_value (n != 0): the entry step ...
                    auto const c = BR::get_chunk_size((std::uint32_t) W, n);
                    auto const k = BR::get_num_chunks(n, c);
                    os.ts.template emplace<std::tuple<>>();
                    BR br{&os};
                    for (int w = 0; w < W; ++w) br.init_queue((std::uint32_t) w, k);
                    // ... the spawn loop (do_work_task) ...
                    for (int w = 0; w < W; ++w)
                    {
                        if (w == loc) continue;
                        pika::verif::point(1192, nullptr, (std::uint64_t) w);
                        if (os.queues[w].data_.empty()) { TF{&os, n, c, (std::uint32_t) w}.finish(); }
                        else { spawned[w] = 1; }
                    }
                    // ... and do_work_local
                    TF{&os, n, c, (std::uint32_t) loc}();
                }
                else if (spawned[t])
                {
                    // the task registered by do_work_task: chunk size as computed by the spawner
                    auto const c = BR::get_chunk_size((std::uint32_t) W, n);
                    TF{&os, n, c, (std::uint32_t) t}();
                }
                ctl.end();
            });
        std::vector<int> sched_l, sites;
        bool bad = false;
        for (int guard = 0; guard < 20000; ++guard)
        {
            if (!ctl.quiesce())
            {
                bad = true;
                break;
            }
            auto p = ctl.parked();
            std::vector<int> cand;
            for (int t : p)
                if (ctl.site_of(t) != 0 || t == loc || spawned[t]) cand.push_back(t);
            if (cand.empty()) break;
            int t = cand[rng.below(cand.size())];
            if (!sched_l.empty() && rng.chance(1, 3))
                for (int x : cand)
                    if (x == sched_l.back()) t = x;
            sched_l.push_back(t);
            sites.push_back(site_code(ctl.site_of(t), t == loc));
            ctl.release(t);
        }
        if (bad)
        {
            std::printf("HARNESS-ERROR quiesce case=%d\n", cs);
            std::fflush(stdout);
            _exit(3);
        }
        // tasks that were never spawned leave their start point and end
        ctl.release_all_parked();
        for (auto& x : th) x.join();
        pika::verif::hook.store(nullptr, std::memory_order_release);

        std::ostringstream in, out;
        in << "IN LK " << cs << " " << W << " " << n << " 32 " << loc << " " << spec << " ";
        for (size_t i = 0; i < sched_l.size(); ++i) in << (i ? "," : "") << sched_l[i];
        if (sched_l.empty()) in << "-";
        auto lst = [](std::ostringstream& o, auto const& v) {
            if (v.empty()) o << "-";
            for (size_t i = 0; i < v.size(); ++i) o << (i ? "," : "") << v[i];
        };
        out << "OUT LK " << cs << " sites=";
        lst(out, sites);
        out << " calls=";
        lst(out, log.calls);
        out << " exits=";
        lst(out, log.exits);
        out << " thrown=";
        lst(out, log.thrown);
        out << " sigs=";
        if (log.sigs.empty()) out << "-";
        for (size_t i = 0; i < log.sigs.size(); ++i) out << (i ? "|" : "") << log.sigs[i];
        out << " fin=";
        lst(out, log.fin);
        out << " rem=" << (std::uint64_t) os.tasks_remaining.load();
        out << " q=";
        for (int w = 0; w < W; ++w)
        {
            out << (w ? "," : "");
            bool first = true;
            for (int j = 0; j < 64; ++j)
            {
                auto v = os.queues[w].data_.pop_left();
                if (!v) break;
                out << (first ? "" : ".") << *v;
                first = false;
            }
            if (first) out << "e";
        }
        std::printf("%s\n%s\n", in.str().c_str(), out.str().c_str());
        std::fflush(stdout);
        g_log = nullptr;
    }
    pika::finalize();
    return pika::stop();
}
