// C06 LOCKSTEP harness: the real pika::concurrency::detail::spinlock (kind SL) and
// pika::detail::recursive_mutex_impl<spinlock> (kind RM) on plain std::threads.  Every atomic
// access of the lock (sites 610..625) is a schedulable point; the controller picks the
// interleaving, the extracted model (Model/Mutex.v: sl_tstep / rm_tstep) replays it and predicts
// the site visited by every step and every return value.
// Monitors evaluated here on the implementation: occupancy (never two threads inside), nesting depth.
#include "common/ctl.hpp"

#include <pika/concurrency/spinlock.hpp>
#include <pika/synchronization/recursive_mutex.hpp>

#include <atomic>
#include <cstring>
#include <sstream>
#include <string>
#include <thread>
#include <unistd.h>
#include <vector>

using spinlock = pika::concurrency::detail::spinlock;
using recmutex = pika::detail::recursive_mutex_impl<spinlock>;

static int const MAXSTEPS = 4000;

template <typename Body>
static bool run_case(char const* kind, int cs, int T, std::vector<std::string> const& progs, vctl::Rng& rng,
    Body body, std::vector<std::vector<std::string>>& res, int& occ_bad)
{
    vctl::Controller ctl(T, 610, 625);
    std::vector<std::thread> th;
    for (int t = 0; t < T; ++t)
        th.emplace_back([&, t] {
            ctl.begin(t);
            body(t);
            ctl.end();
        });
    if (!ctl.quiesce()) { std::printf("HARNESS-ERROR quiesce-start %s case=%d\n", kind, cs); std::fflush(stdout); _exit(3); }
    ctl.release_all_parked();
    std::vector<int> sched, sites;
    bool hang = false;
    for (;;)
    {
        if (!ctl.quiesce())
        {
            hang = true;    // a thread neither parked nor finished for 10 s: the real code spins or blocks
            break;
        }
        auto p = ctl.parked();
        if (p.empty()) break;
        if ((int) sched.size() >= MAXSTEPS) { hang = true; break; }
        int t = p[rng.below(p.size())];
        if (!sched.empty() && rng.chance(1, 3))
            for (int x : p)
                if (x == sched.back()) t = x;
        sched.push_back(t);
        sites.push_back(ctl.site_of(t));
        ctl.release(t);
    }
    std::ostringstream in, out;
    in << "IN " << kind << " " << cs << " " << T;
    for (auto& p : progs) in << " " << (p.empty() ? "-" : p);
    in << " ";
    for (size_t i = 0; i < sched.size(); ++i) in << (i ? "," : "") << sched[i];
    if (sched.empty()) in << "-";
    std::printf("%s\n", in.str().c_str());
    if (hang)
    {
        std::printf("OUT %s %d hang=1 steps=%zu occ_bad=%d\n", kind, cs, sched.size(), occ_bad);
        std::fflush(stdout);
        _exit(0);    // threads are stuck inside the lock: nothing more can run in this process
    }
    for (auto& x : th) x.join();
    out << "OUT " << kind << " " << cs << " sites=";
    for (size_t i = 0; i < sites.size(); ++i) out << (i ? "," : "") << sites[i];
    out << " res=";
    for (int t = 0; t < T; ++t)
    {
        out << (t ? "|" : "");
        for (size_t i = 0; i < res[t].size(); ++i) out << (i ? "," : "") << res[t][i];
    }
    out << " left=";
    for (int t = 0; t < T; ++t) out << (t ? "," : "") << 0;
    if (occ_bad) out << " occ_bad=" << occ_bad;
    std::printf("%s\n", out.str().c_str());
    std::fflush(stdout);
    return true;
}

// vctl::Rng(seed) and Rng(seed+1) produce the same stream shifted by one draw (x = seed * gamma):
// decorrelate the seeds first
static std::uint64_t mix_seed(std::uint64_t z)
{
    z = (z ^ (z >> 30)) * 0xBF58476D1CE4E5B9ull + 0x632BE59BD9B4E019ull;
    z = (z ^ (z >> 27)) * 0x94D049BB133111EBull;
    return z ^ (z >> 31);
}

int main(int argc, char** argv)
{
    std::uint64_t seed = argc > 1 ? std::strtoull(argv[1], nullptr, 10) : 1;
    int ncases = argc > 2 ? std::atoi(argv[2]) : 100;
    vctl::Rng rng(mix_seed(seed));
    for (int cs = 0; cs < ncases; ++cs)
    {
        bool rm = rng.chance(1, 2);
        int T = 1 + (int) rng.below(4);
        std::vector<std::string> progs(T);
        for (auto& p : progs)
        {
            int n = 1 + (int) rng.below(rm ? 6 : 4);
            bool maybe_held = false;    // spinlock: lock() by the holder spins forever, never generated
            for (int i = 0; i < n; ++i)
            {
                unsigned r = (unsigned) rng.below(10);
                char c = r < 4 ? 'L' : r < 6 ? 'T' : 'U';
                if (!rm && c == 'L' && maybe_held) c = 'U';
                if (c == 'U') maybe_held = false; else maybe_held = true;
                p.push_back(c);
            }
            // release whatever is still held at the end (an unlock by a thread that does not hold the
            // lock is skipped: user code `if (held) unlock()`)
            for (int i = 0; i < n; ++i) p.push_back('U');
        }
        std::vector<std::vector<std::string>> res(T);
        int occ_bad = 0;
        int inside = 0;    // plain int: only one thread runs between two schedule points
        int who = -1;
        if (!rm)
        {
            spinlock m;
            run_case("SL", cs, T, progs, rng,
                [&](int t) {
                    bool held = false;
                    for (char c : progs[t])
                    {
                        if (c == 'L')
                        {
                            m.lock();
                            held = true;
                            if (++inside != 1) ++occ_bad;
                            res[t].push_back("L");
                        }
                        else if (c == 'T')
                        {
                            bool r = m.try_lock();
                            if (r && held) ++occ_bad;
                            if (r)
                            {
                                held = true;
                                if (++inside != 1) ++occ_bad;
                            }
                            res[t].push_back(r ? "T1" : "T0");
                        }
                        else if (held)
                        {
                            --inside;
                            held = false;
                            m.unlock();
                            res[t].push_back("U");
                        }
                    }
                },
                res, occ_bad);
        }
        else
        {
            recmutex m;
            run_case("RM", cs, T, progs, rng,
                [&](int t) {
                    int depth = 0;
                    for (char c : progs[t])
                    {
                        if (c == 'L')
                        {
                            m.lock();
                            ++depth;
                            if (depth == 1) { if (++inside != 1) ++occ_bad; who = t; }
                            else if (who != t) ++occ_bad;
                            res[t].push_back("L:" + std::to_string(depth));
                        }
                        else if (c == 'T')
                        {
                            bool r = m.try_lock();
                            if (r)
                            {
                                ++depth;
                                if (depth == 1) { if (++inside != 1) ++occ_bad; who = t; }
                                else if (who != t) ++occ_bad;
                            }
                            else if (depth > 0) ++occ_bad;    // the owner's try_lock must succeed
                            res[t].push_back(r ? "T1:" + std::to_string(depth) : std::string("T0:0"));
                        }
                        else if (depth > 0)
                        {
                            --depth;
                            if (depth == 0) { --inside; who = -1; }
                            m.unlock();
                            res[t].push_back("U:" + std::to_string(depth));
                        }
                    }
                },
                res, occ_bad);
        }
    }
    return 0;
}
