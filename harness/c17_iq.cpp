// C17 (index queue) LOCKSTEP harness: real contiguous_index_queue<uint32_t>, real threads,
// interleavings chosen by the controller at the LOAD (1701) / CAS (1702) points.
// Prints for each case an IN line (the input and the executed schedule: what the model
// replays) and an OUT line (what the implementation did).
#include "common/ctl.hpp"

#include <pika/concurrency/detail/contiguous_index_queue.hpp>

#include <cinttypes>
#include <optional>
#include <sstream>
#include <thread>

using Q = pika::concurrency::detail::contiguous_index_queue<std::uint32_t>;

int main(int argc, char** argv)
{
    std::uint64_t seed = argc > 1 ? std::strtoull(argv[1], nullptr, 10) : 1;
    int ncases = argc > 2 ? std::atoi(argv[2]) : 100;
    vctl::Rng rng(seed);
    for (int cs = 0; cs < ncases; ++cs)
    {
        // generator: aimed at empty/one-element ranges, contention and the 2^32 edge
        int T = 1 + (int) rng.below(5);
        std::uint32_t len = (std::uint32_t) rng.below(rng.chance(1, 4) ? 3 : 9);
        std::uint32_t f;
        switch (rng.below(4))
        {
        case 0: f = 0; break;
        case 1: f = 0xFFFFFFFFu - len; break;    // last == 2^32-1
        case 2: f = (std::uint32_t) rng.below(1000); break;
        default: f = 0x7FFFFFFFu - (std::uint32_t) rng.below(4); break;
        }
        std::uint32_t l = f + len;
        std::vector<std::string> progs(T);
        for (auto& p : progs)
        {
            int n = 1 + (int) rng.below(4);
            int mode = (int) rng.below(3);    // all-left, all-right, mixed
            for (int i = 0; i < n; ++i)
                p.push_back(mode == 0 ? 'L' : mode == 1 ? 'R' : (rng.chance(1, 2) ? 'L' : 'R'));
        }
        Q q(f, l);
        vctl::Controller ctl(T, 1701, 1702);
        std::vector<std::vector<std::optional<std::uint32_t>>> got(T);
        std::vector<std::thread> th;
        for (int t = 0; t < T; ++t)
            th.emplace_back([&, t] {
                ctl.begin(t);
                for (char c : progs[t]) got[t].push_back(c == 'L' ? q.pop_left() : q.pop_right());
                ctl.end();
            });
        if (!ctl.quiesce()) { std::printf("HARNESS-ERROR quiesce-start case=%d\n", cs); return 3; }
        ctl.release_all_parked();    // leave the START point; no shared access before the first site
        std::vector<int> sched, sites;
        for (;;)
        {
            if (!ctl.quiesce()) { std::printf("HARNESS-ERROR quiesce case=%d\n", cs); return 3; }
            auto p = ctl.parked();
            if (p.empty()) break;
            int t = p[rng.below(p.size())];
            // bias: sometimes keep running the same thread (long solo stretches), else random
            if (!sched.empty() && rng.chance(1, 3))
                for (int x : p)
                    if (x == sched.back()) t = x;
            sched.push_back(t);
            sites.push_back(ctl.site_of(t) - 1700);
            ctl.release(t);
        }
        for (auto& x : th) x.join();
        std::ostringstream in, out;
        in << "IN IQ " << cs << " " << f << " " << l << " " << T;
        for (auto& p : progs) in << " " << p;
        in << " ";
        for (size_t i = 0; i < sched.size(); ++i) in << (i ? "," : "") << sched[i];
        if (sched.empty()) in << "-";
        out << "OUT IQ " << cs << " sites=";
        for (size_t i = 0; i < sites.size(); ++i) out << (i ? "," : "") << sites[i];
        out << " res=";
        for (int t = 0; t < T; ++t)
        {
            out << (t ? "|" : "");
            for (size_t i = 0; i < got[t].size(); ++i)
            {
                out << (i ? "," : "");
                if (got[t][i]) out << *got[t][i]; else out << "n";
            }
        }
        out << " rest=";
        bool firstv = true;
        for (std::uint32_t k = 0; k < len + 3; ++k)    // bounded: a broken queue must not hang the harness
        {
            auto v = q.pop_left();
            if (!v) break;
            out << (firstv ? "" : ",") << *v;
            firstv = false;
        }
        if (firstv) out << "-";
        std::printf("%s\n%s\n", in.str().c_str(), out.str().c_str());
        std::fflush(stdout);
    }
    return 0;
}
