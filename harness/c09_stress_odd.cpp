// C09 free-running stress twin, second part: pika::barrier with ODD participant counts on pika TASKS.
//
// Why a separate twin: barrier_algorithm_base::arrive() derives the start node of an arrival from a hash of
// the id of the WORKER (std::thread) it runs on, modulo the node count (expected + 1) >> 1; callers on plain OS
// threads (harness/c09_stress.cpp) always start at node 0.  With an odd count in a tree round the last node is
// an unpaired "1 in 1" ticket that is claimed in one step (old -> full).  Only arrivals that start at different
// nodes (tasks on different workers) meet at that ticket from both sides: the scan of one worker's tasks walks
// up to it while another worker's tasks start on it.  A claim that is not one atomic read-modify-write (load;
// store) lets two arrivals both win it: one arrival is counted twice, the phase completes with a participant
// missing.  Lock-step cannot schedule inside such a pair (no hook inside), so the real code runs here with real
// concurrency, no controller, no hook installed; the property is judged by model-independent ledger monitors
// that hold for EVERY interleaving of correct code (nothing depends on timing).
//
//   c09_stress_odd <seed> <workers> <phases> <budget_ms> [N=0] [hang_ms=20000] [rounds=1]
//
// One round = one forked child = one start of the runtime (--pika:threads=<workers>; fresh worker thread ids, so
// the counts N for which two workers map to the unpaired last node differ from round to round) sweeping ALL odd
// N in 3..29 (or only the given N) in a seed-derived order.  A run (N, round): N tasks on the default pool, each
// looping `arrived[k]++; arrive_and_wait(); checks` for k = 0, 1, ... with no delay between phases (everybody is
// released together from phase k and rushes into phase k+1); a third of the runs adds a seed-derived spin of
// 0..63 iterations per participant before each arrival.  The run ends after <phases> phases, or earlier — but not
// before 32 phases — once the run's share of the time budget is used up (decided by the completion
// function, which runs alone, and read by the participants after they left that phase: no race).
// Ledger: arrived[k] incremented BEFORE arriving at phase k, left[k] AFTER the wait of phase k returned,
// done[k] = 1 / 2 at entry / exit of the completion function, completions = number of completion calls.
//   completion_early            completion function of phase k entered while arrived[k] < N
//   completion_count            completion function ran twice for one phase / more often than phases / a phase without
//   completion_after_release    completion function of phase k entered after somebody had left phase k
//   left_early                  a participant left phase k while arrived[k] < N
//   released_before_completion  a participant left phase k while done[k] != 2
//   generation                  a participant leaving phase k saw completions != k + 1 (its own phase counter and the
//                               barrier's disagree: phase k+1 cannot have completed without this participant)
//   hang                        no phase completed for hang_ms (progress watchdog thread in the child)
// Output:
//   RUN  ODD W=<w> round=<r> N=<n> phases=<done> ms=<t> spin=<0|1> workers_seen=<d> workers_at_last=<c> starts_at_last=<s>
//        (workers_at_last = distinct workers whose arrivals START at the unpaired last node of tree round 0 — computed as
//        barrier.cpp does: hash(std::this_thread::get_id()) % ((N + 1) >> 1); >= 2 is the direct precondition of the race)
//   BAD  ODD <trial> cls=odd/N=<n>/W=<w> sig=<monitor> <details>      trial = round * 100 + N
//   DIED ODD <trial> <hang|segv|abort|exit> cls=...
//   SUM  ODD N=<n> <phases>   DONE ODD trials=<runs> ms=<elapsed> deaths=<n>
#include "common/ctl.hpp"

#include <pika/barrier.hpp>
#include <pika/execution.hpp>
#include <pika/init.hpp>
#include <pika/latch.hpp>
#include <pika/thread.hpp>

#include <atomic>
#include <chrono>
#include <csignal>
#include <cstdarg>
#include <cstdint>
#include <cstdio>
#include <cstdlib>
#include <cstring>
#include <functional>
#include <memory>
#include <optional>
#include <string>
#include <sys/mman.h>
#include <sys/wait.h>
#include <thread>
#include <unistd.h>
#include <vector>

namespace ex = pika::execution::experimental;
namespace tt = pika::this_thread::experimental;

namespace odd {
    static constexpr int MAXN = 32;
    using clk = std::chrono::steady_clock;
    static long ms_since(clk::time_point t0) { return (long) std::chrono::duration_cast<std::chrono::milliseconds>(clk::now() - t0).count(); }

    struct Shm
    {
        int cur_n, cur_round, cur_w;
        std::uint64_t runs;
        std::uint64_t phases_by_n[MAXN];
        std::uint64_t runs_by_n[MAXN];
        std::uint64_t precond_by_n[MAXN];    // runs of N in which >= 2 distinct workers started arrivals at the last node
        std::uint64_t short_by_n[MAXN];      // runs cut short by the time box
        std::uint64_t precond_runs;
    };
    static Shm* g_shm = nullptr;
    static std::atomic<std::uint64_t> g_beat{0};

    // worker table: hash values of the worker thread ids seen so far (index = worker)
    static std::atomic<std::size_t> g_wh[64];
    static std::atomic<int> g_nw{0};
    static int worker_index(std::size_t h)
    {
        for (;;)
        {
            int n = g_nw.load(std::memory_order_acquire);
            for (int i = 0; i < n; ++i)
                if (g_wh[i].load(std::memory_order_relaxed) == h) return i;
            if (n >= 64) return 63;
            // append (rare: once per worker)
            static std::atomic<bool> lk{false};
            bool f = false;
            if (!lk.compare_exchange_strong(f, true)) continue;
            if (g_nw.load() == n)
            {
                g_wh[n].store(h);
                g_nw.store(n + 1, std::memory_order_release);
            }
            lk.store(false);
        }
    }

    struct Run;
    struct Comp
    {
        Run* r;
        void operator()() noexcept;
    };
    struct Run
    {
        int N = 0, W = 0, round = 0;
        long P = 0, minP = 0;
        bool spin = false;
        long share_ms = 0;
        clk::time_point t0;
        std::unique_ptr<std::atomic<int>[]> arrived, left, done;
        std::atomic<long> completions{0};
        std::atomic<long> stop_after{-1};    // set by the completion function of the last phase
        std::atomic<long> at_phase[MAXN];
        std::atomic<int> at_state[MAXN];    // 0 not started, 1 inside arrive_and_wait, 2 between phases, 3 finished
        int delay[MAXN];
        std::atomic<std::uint64_t> starts_at_last{0};
        std::atomic<std::uint64_t> workers_at_last_mask{0};
        std::optional<pika::barrier<Comp>> b;

        std::string describe(long k) const
        {
            char buf[900];
            int n = std::snprintf(buf, sizeof buf, "N=%d workers=%d round=%d phases_planned=%ld completions=%ld", N, W, round, P, completions.load());
            if (k >= 0 && k < P)
                n += std::snprintf(buf + n, sizeof buf - n, " phase=%ld arrived=%d/%d left=%d done=%d", k, arrived[k].load(), N, left[k].load(), done[k].load());
            n += std::snprintf(buf + n, sizeof buf - n, " progress=");
            for (int i = 0; i < N && n < (int) sizeof buf - 16; ++i) n += std::snprintf(buf + n, sizeof buf - n, "%s%ld:%d", i ? "," : "", at_phase[i].load(), at_state[i].load());
            return buf;
        }
    };
    static std::atomic<Run*> g_cur{nullptr};

    [[noreturn]] static void bad(Run* r, long k, char const* sig, char const* fmt, ...)
    {
        char buf[600];
        va_list ap;
        va_start(ap, fmt);
        std::vsnprintf(buf, sizeof buf, fmt, ap);
        va_end(ap);
        std::printf("BAD ODD %d cls=odd/N=%d/W=%d sig=%s %s [%s]\n", r->round * 100 + r->N, r->N, r->W, sig, buf, r->describe(k).c_str());
        std::fflush(stdout);
        _exit(9);
    }

    inline void Comp::operator()() noexcept
    {
        Run* t = r;
        long k = t->completions.fetch_add(1);
        g_beat.fetch_add(1, std::memory_order_relaxed);
        if (k >= t->P) bad(t, k, "completion_count", "the completion function ran %ld times for %ld phases", k + 1, t->P);
        if (t->done[k].exchange(1) != 0) bad(t, k, "completion_count", "the completion function ran twice for phase %ld", k);
        int a = t->arrived[k].load();
        if (a < t->N)
            bad(t, k, "completion_early", "the completion function of phase %ld ran when only %d of %d participants had arrived at that phase", k, a, t->N);
        int l = t->left[k].load();
        if (l != 0) bad(t, k, "completion_after_release", "the completion function of phase %ld started after %d participants had left that phase", k, l);
        if (k + 1 >= t->P || (k + 1 >= t->minP && ms_since(t->t0) >= t->share_ms)) t->stop_after.store(k);
        t->done[k].store(2);
    }

    static void participant(Run* t, int me)
    {
        std::hash<std::thread::id> hs;
        std::size_t const nodes = (std::size_t) (t->N + 1) >> 1;
        std::uint64_t my_starts = 0, my_mask = 0;
        std::size_t last_h = 0;
        int last_w = 0;
        for (long k = 0; k < t->P; ++k)
        {
            t->at_phase[me].store(k, std::memory_order_relaxed);
            t->at_state[me].store(1, std::memory_order_relaxed);
            if (t->spin)
                for (volatile int i = 0; i < t->delay[me]; i = i + 1) {}
            // the start node of this arrival, computed the way barrier.cpp does
            std::size_t h = hs(std::this_thread::get_id());
            if (h != last_h)
            {
                last_h = h;    // the task runs on another worker than at its previous arrival (rare)
                last_w = worker_index(h);
            }
            if (h % nodes == nodes - 1)
            {
                ++my_starts;
                my_mask |= 1ull << last_w;
            }
            t->arrived[k].fetch_add(1);
            t->b->arrive_and_wait();
            // ---- left phase k
            int a = t->arrived[k].load();
            if (a < t->N) bad(t, k, "left_early", "participant %d left phase %ld when only %d of %d participants had arrived at that phase", me, k, a, t->N);
            int d = t->done[k].load();
            if (d != 2)
                bad(t, k, "released_before_completion", "participant %d left phase %ld before the completion function of that phase had %s", me, k,
                    d == 0 ? "started" : "returned");
            long c = t->completions.load();
            if (c != k + 1)
                bad(t, k, "generation",
                    "participant %d left phase %ld (its %ld-th arrive_and_wait) when the completion function had run %ld times: phase %ld completed without this "
                    "participant",
                    me, k, k + 1, c, k + 1);
            t->left[k].fetch_add(1);
            t->at_state[me].store(2, std::memory_order_relaxed);
            if (t->stop_after.load() == k) break;
        }
        t->at_state[me].store(3, std::memory_order_relaxed);
        t->starts_at_last.fetch_add(my_starts);
        t->workers_at_last_mask.fetch_or(my_mask);
    }

    // runs inside a pika task
    static void run_one(int N, int W, int round, long P, long minP, long share_ms, std::uint64_t seed)
    {
        auto t = std::make_unique<Run>();
        vctl::Rng rng(seed * 1000003ull + (std::uint64_t) round * 1009 + (std::uint64_t) N);
        t->N = N;
        t->W = W;
        t->round = round;
        t->P = P;
        t->minP = minP;
        t->share_ms = share_ms;
        t->spin = rng.chance(1, 3);
        t->arrived.reset(new std::atomic<int>[P]);
        t->left.reset(new std::atomic<int>[P]);
        t->done.reset(new std::atomic<int>[P]);
        for (long k = 0; k < P; ++k)
        {
            t->arrived[k].store(0);
            t->left[k].store(0);
            t->done[k].store(0);
        }
        for (int i = 0; i < N; ++i)
        {
            t->at_phase[i].store(-1);
            t->at_state[i].store(0);
            t->delay[i] = (int) rng.below(64);
        }
        g_shm->cur_n = N;
        g_shm->cur_round = round;
        g_shm->cur_w = W;
        t->b.emplace(N, Comp{t.get()});
        g_cur.store(t.get());
        g_beat.fetch_add(1);
        t->t0 = clk::now();
        pika::latch fin(N + 1);
        Run* tp = t.get();
        for (int i = 0; i < N; ++i)
            ex::execute(ex::thread_pool_scheduler{}, [tp, i, &fin] {
                participant(tp, i);
                fin.count_down(1);
            });
        fin.arrive_and_wait();
        g_beat.fetch_add(1);
        long ms = ms_since(t->t0);
        long c = t->completions.load();
        long last = t->stop_after.load();
        if (last < 0 || c != last + 1) bad(tp, last, "completion_count", "all participants finished after phase %ld but the completion function ran %ld times", last, c);
        for (long k = 0; k <= last; ++k)
        {
            if (t->done[k].load() != 2) bad(tp, k, "completion_count", "phase %ld has no completed completion function", k);
            if (t->arrived[k].load() != N || t->left[k].load() != N)
                bad(tp, k, "left_early", "phase %ld: %d arrivals and %d departures recorded for %d participants", k, t->arrived[k].load(), t->left[k].load(), N);
        }
        g_cur.store(nullptr);
        std::uint64_t mask = t->workers_at_last_mask.load();
        int wl = __builtin_popcountll(mask);
        std::printf("RUN ODD W=%d round=%d N=%d phases=%ld ms=%ld spin=%d workers_seen=%d workers_at_last=%d starts_at_last=%llu\n", W, round, N, c, ms, t->spin ? 1 : 0,
            g_nw.load(), wl, (unsigned long long) t->starts_at_last.load());
        std::fflush(stdout);
        ++g_shm->runs;
        g_shm->phases_by_n[N] += (std::uint64_t) c;
        ++g_shm->runs_by_n[N];
        if (c < P) ++g_shm->short_by_n[N];
        if (wl >= 2)
        {
            ++g_shm->precond_by_n[N];
            ++g_shm->precond_runs;
        }
        t->b.reset();
    }

    static void watchdog(long hang_ms)
    {
        std::uint64_t last = ~0ull;
        long since = 0;
        for (;;)
        {
            usleep(100000);
            std::uint64_t b = g_beat.load();
            if (b != last)
            {
                last = b;
                since = 0;
            }
            else if ((since += 100) >= hang_ms)
            {
                Run* r = g_cur.load();
                std::string d;
                long k = -1;
                if (r)
                {
                    k = r->completions.load();
                    d = r->describe(k);
                    if (k < r->P && r->arrived[k].load() >= r->N && r->done[k].load() == 0)
                        d += " diagnosis=all_participants_of_the_phase_arrived_but_it_never_completed";
                    else if (k < r->P)
                        d += " diagnosis=a_participant_never_arrives_or_never_leaves";
                }
                std::printf("BAD ODD %d cls=odd/N=%d/W=%d sig=hang no barrier phase completed for %ld ms (participants wait or spin forever) [%s]\n",
                    g_shm->cur_round * 100 + g_shm->cur_n, g_shm->cur_n, g_shm->cur_w, since, d.c_str());
                std::fflush(stdout);
                _exit(8);
            }
        }
    }
}    // namespace odd

int main(int argc, char** argv)
{
    std::uint64_t seed = argc > 1 ? std::strtoull(argv[1], nullptr, 10) : 1;
    int W = argc > 2 ? std::atoi(argv[2]) : 4;
    long P = argc > 3 ? std::atol(argv[3]) : 1500;
    long budget = argc > 4 ? std::atol(argv[4]) : 8000;
    int onlyN = argc > 5 ? std::atoi(argv[5]) : 0;
    long hang_ms = argc > 6 ? std::atol(argv[6]) : 20000;
    int rounds = argc > 7 ? std::atoi(argv[7]) : 1;
    if (W < 2) W = 2;
    if (P < 16) P = 16;
    long minP = P < 32 ? P : 32;

    using namespace odd;
    g_shm = (Shm*) mmap(nullptr, sizeof(Shm), PROT_READ | PROT_WRITE, MAP_SHARED | MAP_ANONYMOUS, -1, 0);
    std::memset(g_shm, 0, sizeof(Shm));
    auto T0 = clk::now();
    int deaths = 0;
    for (int round = 0; round < rounds; ++round)
    {
        // the rounds share the time box: a round gets an equal part of what is left; a later round for which nothing is
        // left is not started (loaded machine: fewer phases, reported by the SUM lines)
        long const per_round = (budget - ms_since(T0)) / (rounds - round);
        if (round > 0 && per_round <= 0)
        {
            std::printf("SKIPPED ODD round %d of %d: the time box of %ld ms is used up\n", round, rounds, budget);
            break;
        }
        std::fflush(stdout);
        pid_t pid = fork();
        if (pid == 0)
        {
            if (!std::getenv("STRESS_KEEP_STDERR")) { (void) !freopen("/dev/null", "w", stderr); }
            std::thread(watchdog, hang_ms).detach();
            alarm((unsigned) (budget / 1000 + 240));    // backstop
            std::string thr = "--pika:threads=" + std::to_string(W);
            // no binding of the workers to cores: every pika process on the machine binds worker i to core i by default, so
            // concurrently running harnesses would all share the first cores (phases then take milliseconds)
            std::string bind = std::getenv("C09_ODD_BIND") ? std::string("--pika:bind=") + std::getenv("C09_ODD_BIND") : std::string("--pika:bind=none");
            char* av[] = {argv[0], thr.data(), bind.data(), nullptr};
            pika::start(3, av);
            // the order of the counts: seed-derived
            std::vector<int> ns;
            if (onlyN) ns.assign(3, onlyN);    // replay of one count: three runs
            else
                for (int n = 3; n <= 29; n += 2) ns.push_back(n);
            vctl::Rng rng(seed * 7919 + (std::uint64_t) round * 31 + (std::uint64_t) W);
            for (std::size_t i = ns.size(); i > 1; --i) std::swap(ns[i - 1], ns[rng.below(i)]);
            auto r0 = clk::now();
            tt::sync_wait(ex::schedule(ex::thread_pool_scheduler{}) | ex::then([&] {
                for (std::size_t i = 0; i < ns.size(); ++i)
                {
                    // this run's share of what is left of the round's time box (never below 1 ms: then minP phases)
                    long leftms = per_round - ms_since(r0);
                    long share = leftms > 0 ? leftms / (long) (ns.size() - i) : 1;
                    run_one(ns[i], W, round, P, minP, share < 1 ? 1 : share, seed);
                }
            }));
            g_beat.fetch_add(1);
            pika::finalize();
            pika::stop();
            alarm(0);
            std::fflush(stdout);
            _exit(0);
        }
        int st = 0;
        waitpid(pid, &st, 0);
        if (WIFEXITED(st) && WEXITSTATUS(st) == 0) continue;
        ++deaths;
        if (!(WIFEXITED(st) && (WEXITSTATUS(st) == 9 || WEXITSTATUS(st) == 8)))
        {
            char const* what = "abort";
            if (WIFSIGNALED(st) && WTERMSIG(st) == SIGALRM) what = "hang";
            else if (WIFSIGNALED(st) && (WTERMSIG(st) == SIGSEGV || WTERMSIG(st) == SIGBUS)) what = "segv";
            else if (WIFEXITED(st)) what = "exit";
            std::printf("DIED ODD %d %s cls=odd/N=%d/W=%d\n", g_shm->cur_round * 100 + g_shm->cur_n, what, g_shm->cur_n, g_shm->cur_w);
        }
        // the first failure ends the sweep: the state of the barrier is corrupt and every hang costs a watchdog period
        std::printf("SKIPPED ODD remaining counts after the first failure\n");
        break;
    }
    for (int n = 0; n < MAXN; ++n)
        if (g_shm->runs_by_n[n])
            std::printf("SUM ODD N=%d phases=%llu runs=%llu short=%llu precond=%llu\n", n, (unsigned long long) g_shm->phases_by_n[n], (unsigned long long) g_shm->runs_by_n[n],
                (unsigned long long) g_shm->short_by_n[n], (unsigned long long) g_shm->precond_by_n[n]);
    std::printf("DONE ODD trials=%llu ms=%ld deaths=%d W=%d precond_runs=%llu\n", (unsigned long long) g_shm->runs, ms_since(T0), deaths, W,
        (unsigned long long) g_shm->precond_runs);
    std::fflush(stdout);
    return 0;
}
