// C06 TRACE harness: the real pika::timed_mutex (= pika::mutex + try_lock_until) on pika tasks inside
// the running runtime.  N tasks (often more than workers) run seeded programs of
//   L lock   T try_lock   D try_lock_for(short) followed by a yield   U unlock   W write the unprotected
//   data (only while holding)   Y yield
// including the misuse the API promises to detect (lock by the owner, unlock by a non-owner).  Hooks inside
// the critical sections of the mutex's internal spinlock (601..607) give the total order of its
// critical sections; the extracted model (Model/Mutex.v, mx_tstep) replays that order and predicts
// what every critical section decided (wait / acquired / try result / timed result / queue length at
// unlock), every error and every data version seen on entry.  Seeded busy-wait perturbation at the hooks
// (after the owner test, before notify, inside notify_one, between the cv's unlock and suspend).
// Monitors evaluated here on the implementation: occupancy counter, lost updates of the unprotected data,
// per-task progress (watchdog), error codes of misuse.
//
// Mode "rm" (c06_rt <seed> <n> rm): pika::detail::recursive_mutex_impl<pika::mutex> (the tree has no
// pika::recursive_mutex alias; the template is instantiated here) on 2..8 pika tasks, 4 workers: seeded programs of
// lock / try_lock / unlock (re-entrant to depth <= 4) / write (read-yield-write of unprotected data) / yield, with
// yields inside the critical sections so that the owner migrates between workers while it holds the mutex.
// Monitors only (no model replay): occupancy (a first acquisition must find no other shadow owner), shadow depth
// per owner (re-lock and try_lock by the owner succeed and the shadow depth equals the caller's nesting), lost
// updates, no exception (pika::mutex reports a self-lock as deadlock, a foreign unlock as lock_error), progress
// (8 s per case, 25 s process watchdog: a hang is printed as hang=1/2, never a hung check).
#include <pika/config.hpp>
#include <pika/init.hpp>
#include <pika/modules/errors.hpp>
#include <pika/modules/threading.hpp>
#include <pika/synchronization/mutex.hpp>
#include <pika/synchronization/recursive_mutex.hpp>
#include <pika/threading_base/thread_data.hpp>
#include <pika/threading_base/thread_num_tss.hpp>

#include <atomic>
#include <chrono>
#include <cstdint>
#include <cstdio>
#include <cstdlib>
#include <memory>
#include <sstream>
#include <string>
#include <thread>
#include <unistd.h>
#include <vector>

#if !defined(PIKA_VERIF)
#error "harnesses must be compiled with -DPIKA_VERIF"
#endif

struct Rng
{
    std::uint64_t x;
    explicit Rng(std::uint64_t seed) : x(seed * 0x9E3779B97F4A7C15ull + 0x1234567ull) {}
    std::uint64_t next()
    {
        std::uint64_t z = (x += 0x9E3779B97F4A7C15ull);
        z = (z ^ (z >> 30)) * 0xBF58476D1CE4E5B9ull;
        z = (z ^ (z >> 27)) * 0x94D049BB133111EBull;
        return z ^ (z >> 31);
    }
    std::uint64_t below(std::uint64_t n) { return n ? next() % n : 0; }
    bool chance(unsigned num, unsigned den) { return below(den) < num; }
};

struct Ev { int tid; int site; std::uint64_t a; };
static int const MAXEV = 1 << 16;
static Ev g_ev[MAXEV];
static std::atomic<int> g_nev{0};
static std::atomic<char const*> g_lo{nullptr}, g_hi{nullptr};    // address range of the mutex under test
static std::atomic<std::uint64_t> g_pert{0};                     // perturbation seed (0 = off)
static std::atomic<long> g_heartbeat{0};
static std::atomic<int> g_case{-1};

static inline int self_index()
{
    auto* d = pika::threads::detail::get_self_id_data();
    return d ? (int) d->get_thread_data() - 1 : -1;
}
static void log_ev(int tid, int site, std::uint64_t a)
{
    int i = g_nev.fetch_add(1);
    if (i < MAXEV) g_ev[i] = Ev{tid, site, a};
}
static void spin_for_ns(std::uint64_t ns)
{
    auto t0 = std::chrono::steady_clock::now();
    while ((std::uint64_t) std::chrono::duration_cast<std::chrono::nanoseconds>(std::chrono::steady_clock::now() - t0).count() < ns) {}
}
static void hookfn(int site, void const* obj, std::uint64_t a, std::uint64_t)
{
    if (site < 601 || (site > 607 && site != 705 && site != 706)) return;
    char const* p = (char const*) obj;
    char const* lo = g_lo.load(std::memory_order_relaxed);
    if (!lo || p < lo || p >= g_hi.load(std::memory_order_relaxed)) return;
    int tid = self_index();
    if (site <= 607) log_ev(tid, site, a);
    std::uint64_t s = g_pert.load(std::memory_order_relaxed);
    if (s)
    {
        // deterministic in (seed, event index, site): a short busy wait, never a yield (601..604 are inside
        // the internal spinlock's critical section; 705/706 are between its release and suspend/sleep)
        std::uint64_t z = s ^ ((std::uint64_t) g_nev.load(std::memory_order_relaxed) * 0x9E3779B97F4A7C15ull) ^ ((std::uint64_t) site << 32);
        z = (z ^ (z >> 30)) * 0xBF58476D1CE4E5B9ull;
        z ^= z >> 27;
        if ((z & 3) == 0) spin_for_ns(((z >> 8) % 40) * 1000);
    }
}

struct CaseResult
{
    std::vector<std::vector<long>> seen;
    std::vector<int> bad_err;
};

static int run_case(int cs, int T, std::vector<std::string> const& progs, std::uint64_t cseed)
{
    auto m = std::make_shared<pika::timed_mutex>();
    g_lo = (char const*) m.get();
    g_hi = (char const*) m.get() + sizeof(pika::timed_mutex);
    g_nev = 0;
    g_pert = cseed | 1;
    static long data;          // deliberately unprotected, non-atomic
    data = 0;
    std::atomic<int> occ{0};
    std::atomic<int> occ_bad{0}, err_bad{0}, done{0};
    std::atomic<long> writes{0};
    std::vector<std::vector<long>> seen(T);
    std::vector<std::atomic<int>> progress(T);
    for (auto& x : progress) x = 0;
    std::vector<pika::thread> th;
    for (int t = 0; t < T; ++t)
        th.emplace_back([&, t, m] {
            pika::threads::detail::get_self_id_data()->set_thread_data((std::size_t) t + 1);
            Rng r(cseed * 131 + t);
            bool held = false;
            auto enter = [&] {
                held = true;
                if (occ.fetch_add(1) != 0) ++occ_bad;
                seen[t].push_back(data);
            };
            for (char c : progs[t])
            {
                switch (c)
                {
                case 'L': {
                    pika::error_code ec(pika::throwmode::lightweight);
                    m->lock(ec);
                    if (held)
                    {
                        if (ec.value() != (int) pika::error::deadlock) ++err_bad;    // misuse must be reported
                        log_ev(t, 608, (std::uint64_t) ec.value());
                    }
                    else
                    {
                        if (ec) ++err_bad;
                        enter();
                    }
                    break;
                }
                case 'T': {
                    bool ok = m->try_lock();
                    if (ok && held) ++occ_bad;
                    if (ok) enter();
                    break;
                }
                case 'D': {
                    bool ok = m->try_lock_for(std::chrono::microseconds(50 + r.below(400)));
                    if (ok && held) ++occ_bad;
                    if (ok) enter();
                    pika::this_thread::yield();    // phase end: no stale wake-up survives a timed wait
                    break;
                }
                case 'U': {
                    pika::error_code ec(pika::throwmode::lightweight);
                    if (held) occ.fetch_sub(1);
                    m->unlock(ec);
                    if (held) { if (ec) ++err_bad; held = false; }
                    else
                    {
                        if (ec.value() != (int) pika::error::lock_error) ++err_bad;
                        log_ev(t, 609, (std::uint64_t) ec.value());
                    }
                    break;
                }
                case 'W':
                    if (held)
                    {
                        long v = data;
                        if (r.chance(1, 3)) pika::this_thread::yield();    // suspension point inside the critical section
                        else if (r.chance(1, 2)) spin_for_ns(r.below(3000));
                        data = v + 1;
                        ++writes;
                    }
                    break;
                default: pika::this_thread::yield(); break;
                }
                ++progress[t];
                ++g_heartbeat;
            }
            ++done;
        });
    // wait for completion without relying on join (watchdog)
    auto t0 = std::chrono::steady_clock::now();
    bool hang = false;
    while (done.load() < T)
    {
        pika::this_thread::yield();
        if (std::chrono::steady_clock::now() - t0 > std::chrono::seconds(8)) { hang = true; break; }
    }
    g_pert = 0;
    std::ostringstream in, out;
    int nev = std::min(g_nev.load(), MAXEV);
    in << "IN MX " << cs << " " << T;
    for (auto& p : progs) in << " " << (p.empty() ? "-" : p);
    in << " ";
    out << "OUT MX " << cs << " ev=";
    bool first = true;
    // 603 (queue length seen by notify_one) belongs to the 602 of the same task: same critical section
    std::vector<long> qlen(nev, -1);
    for (int i = 0; i < nev; ++i)
        if (g_ev[i].site == 603)
            for (int j = i - 1; j >= 0; --j)
                if (g_ev[j].site == 602 && g_ev[j].tid == g_ev[i].tid)
                {
                    if (qlen[j] < 0) qlen[j] = (long) g_ev[i].a;
                    break;
                }
    for (int i = 0; i < nev; ++i)
    {
        Ev const& e = g_ev[i];
        if (e.site == 603) continue;
        in << (first ? "" : ",") << e.tid;
        out << (first ? "" : ",");
        first = false;
        switch (e.site)
        {
        case 601: out << "W" << e.tid; break;
        case 604: out << "A" << e.tid; break;
        case 605: out << "T" << e.tid << ":" << e.a; break;
        case 606: out << "S" << e.tid; break;
        case 607: out << "D" << e.tid << ":" << e.a; break;
        case 602:
            out << "R" << e.tid;
            if (qlen[i] >= 0) out << ":" << qlen[i];
            break;
        case 608: out << "X" << e.tid; break;
        case 609: out << "E" << e.tid; break;
        }
    }
    if (first) in << "-";
    out << " seen=";
    for (int t = 0; t < T; ++t)
    {
        out << (t ? "|" : "");
        for (size_t i = 0; i < seen[t].size(); ++i) out << (i ? "," : "") << seen[t][i];
    }
    out << " final=" << data << " owner=- unfinished=" << (T - done.load()) << " extra=0";
    // monitors on the implementation (not compared with the model)
    out << " #mon occ_bad=" << occ_bad.load() << " err_bad=" << err_bad.load() << " writes=" << writes.load()
        << " hang=" << (hang ? 1 : 0);
    if (hang)
    {
        out << " progress=";
        for (int t = 0; t < T; ++t) out << (t ? "," : "") << progress[t].load() << "/" << progs[t].size();
    }
    std::printf("%s\n%s\n", in.str().c_str(), out.str().c_str());
    std::fflush(stdout);
    if (hang) _exit(0);    // blocked tasks cannot be cancelled; the check reports the hang
    for (auto& x : th) x.join();
    g_lo = nullptr;
    return 0;
}

// ---------------------------------------------------------------------------------------------------
// recursive_mutex_impl<pika::mutex> on pika tasks: monitors only
static char const* g_kind = "MX";

static int run_rm_case(int cs, int T, std::vector<std::string> const& progs, std::uint64_t cseed)
{
    using rmutex = pika::detail::recursive_mutex_impl<pika::mutex>;
    struct Shared
    {
        rmutex m;
        long data = 0;                 // deliberately unprotected, non-atomic
        std::atomic<int> owner{-1};    // shadow: set after an outermost acquisition returned, cleared before the outermost unlock
        std::atomic<int> depth{0};     // shadow nesting depth, written only by the shadow owner
        std::atomic<int> occ_bad{0}, depth_bad{0}, owner_try_fail{0}, exc{0}, done{0};
        std::atomic<long> writes{0}, acq{0}, reacq{0}, tryfail{0}, waited{0}, migr{0};
    };
    auto sh = std::make_shared<Shared>();
    std::vector<std::atomic<int>> progress(T);
    for (auto& x : progress) x = 0;
    std::vector<pika::thread> th;
    for (int t = 0; t < T; ++t)
        th.emplace_back([sh, t, &progress, prog = progs[t], cseed] {
            Rng r(cseed * 131 + t);
            int my = 0;    // this task's nesting depth
            auto acquired = [&] {
                if (my == 0)
                {
                    if (sh->owner.exchange(t) != -1) ++sh->occ_bad;    // somebody else is inside
                    if (sh->depth.exchange(1) != 0) ++sh->depth_bad;
                    ++sh->acq;
                }
                else
                {
                    if (sh->owner.load() != t) ++sh->occ_bad;
                    if (sh->depth.fetch_add(1) != my) ++sh->depth_bad;
                    ++sh->reacq;
                }
                ++my;
            };
            auto release = [&] {
                // shadow first: from the moment unlock() is entered somebody else may legitimately get in
                if (sh->owner.load() != t) ++sh->occ_bad;
                if (my == 1)
                {
                    if (sh->depth.exchange(0) != 1) ++sh->depth_bad;
                    sh->owner.store(-1);
                }
                else if (sh->depth.fetch_sub(1) != my) ++sh->depth_bad;
                --my;
                sh->m.unlock();
            };
            try
            {
                for (char c : prog)
                {
                    switch (c)
                    {
                    case 'L':
                        if (my >= 4) break;
                        if (my == 0 && sh->owner.load() != -1) ++sh->waited;
                        sh->m.lock();    // the owner re-locks without blocking (a block would be a self-deadlock: watchdog / exception)
                        acquired();
                        break;
                    case 'T': {
                        if (my >= 4) break;
                        bool ok = sh->m.try_lock();
                        if (ok) acquired();
                        else if (my > 0) ++sh->owner_try_fail;    // try_lock by the owner must succeed
                        else ++sh->tryfail;
                        break;
                    }
                    case 'U':
                        if (my > 0) release();
                        break;
                    case 'W':
                        if (my > 0)
                        {
                            if (sh->owner.load() != t || sh->depth.load() != my) ++sh->depth_bad;
                            long v = sh->data;
                            unsigned k = (unsigned) r.below(4);
                            if (k == 0) { auto w0 = pika::get_worker_thread_num(); pika::this_thread::yield(); if (pika::get_worker_thread_num() != w0) ++sh->migr; }
                            else if (k == 1) { pika::this_thread::yield(); pika::this_thread::yield(); }
                            else if (k == 2) spin_for_ns(r.below(3000));
                            sh->data = v + 1;
                            ++sh->writes;
                        }
                        break;
                    default: pika::this_thread::yield(); break;
                    }
                    ++progress[t];
                    ++g_heartbeat;
                }
                while (my > 0) release();
            }
            catch (...)
            {
                ++sh->exc;
            }
            ++sh->done;
        });
    auto t0 = std::chrono::steady_clock::now();
    bool hang = false;
    while (sh->done.load() < T)
    {
        pika::this_thread::yield();
        if (std::chrono::steady_clock::now() - t0 > std::chrono::seconds(8)) { hang = true; break; }
    }
    std::ostringstream in, out;
    in << "IN RMX " << cs << " " << T;
    for (auto& p : progs) in << " " << (p.empty() ? "-" : p);
    out << "OUT RMX " << cs << " occ_bad=" << sh->occ_bad.load() << " depth_bad=" << sh->depth_bad.load()
        << " owner_try_fail=" << sh->owner_try_fail.load() << " exc=" << sh->exc.load() << " writes=" << sh->writes.load()
        << " final=" << sh->data << " acq=" << sh->acq.load() << " reacq=" << sh->reacq.load() << " tryfail=" << sh->tryfail.load()
        << " waited=" << sh->waited.load() << " migr=" << sh->migr.load() << " end_owner=" << sh->owner.load() << " end_depth=" << sh->depth.load()
        << " unfinished=" << (T - sh->done.load()) << " hang=" << (hang ? 1 : 0);
    if (hang)
    {
        out << " progress=";
        for (int t = 0; t < T; ++t) out << (t ? "," : "") << progress[t].load() << "/" << progs[t].size();
    }
    std::printf("%s\n%s\n", in.str().c_str(), out.str().c_str());
    std::fflush(stdout);
    if (hang) _exit(0);    // blocked tasks cannot be cancelled; the check reports the hang
    for (auto& x : th) x.join();
    return 0;
}

static void rm_cases(std::uint64_t seed, int ncases)
{
    Rng rng(seed ^ 0x7ec0751eull);
    for (int cs = 0; cs < ncases; ++cs)
    {
        g_case = cs;
        int T = 2 + (int) rng.below(7);    // 2..8 tasks on 4 workers
        std::vector<std::string> progs(T);
        for (auto& p : progs)
        {
            int n = 3 + (int) rng.below(10);
            for (int i = 0; i < n; ++i)
            {
                unsigned r = (unsigned) rng.below(16);
                char c = r < 5 ? 'L' : r < 8 ? 'T' : r < 11 ? 'U' : r < 14 ? 'W' : 'Y';
                p.push_back(c);
                if ((c == 'L' || c == 'T') && rng.chance(1, 2)) p.push_back('W');
            }
        }
        run_rm_case(cs, T, progs, rng.next());
    }
}

static std::uint64_t g_seed = 1;
static int g_ncases = 100;
static bool g_rm = false;

int pika_main()
{
    if (g_rm)
    {
        rm_cases(g_seed, g_ncases);
        pika::finalize();
        return 0;
    }
    Rng rng(g_seed);
    for (int cs = 0; cs < g_ncases; ++cs)
    {
        g_case = cs;
        int T;
        switch (rng.below(4))
        {
        case 0: T = 1 + (int) rng.below(2); break;     // sequential / near sequential API differencing
        case 1: T = 2 + (int) rng.below(3); break;
        default: T = 4 + (int) rng.below(9); break;    // more tasks than workers
        }
        std::vector<std::string> progs(T);
        bool misuse = rng.chance(1, 3);
        bool timed = rng.chance(1, 2);
        for (auto& p : progs)
        {
            int n = 2 + (int) rng.below(T <= 2 ? 12 : 7);
            for (int i = 0; i < n; ++i)
            {
                unsigned r = (unsigned) rng.below(16);
                char c;
                if (r < 4) c = 'L';
                else if (r < 6) c = 'T';
                else if (r < 7) c = timed ? 'D' : 'T';
                else if (r < 10) c = 'U';
                else if (r < 13) c = 'W';
                else c = 'Y';
                p.push_back(c);
                if (c == 'L' || c == 'T' || c == 'D')
                {
                    // typical critical section: write, maybe yield, unlock
                    if (rng.chance(2, 3)) p.push_back('W');
                    if (rng.chance(1, 3)) p.push_back('Y');
                    if (rng.chance(1, 2)) p.push_back('W');
                    if (!misuse || rng.chance(3, 4)) p.push_back('U');
                }
            }
            if (!misuse)
            {
                // discipline: drop operations that would be misuse (tracked conservatively: after T/D the task
                // may or may not hold the mutex, so only L-after-L and U-after-U are removed)
                std::string q;
                int st = 0;    // 0 not held, 1 held, 2 unknown
                for (char c : p)
                {
                    if (c == 'L') { if (st != 0) continue; st = 1; }
                    else if (c == 'T' || c == 'D') { if (st == 1) continue; st = 2; }
                    else if (c == 'U') { if (st == 0) continue; st = 0; }
                    q.push_back(c);
                }
                p = q;
            }
            p.push_back('U');    // release whatever is still held (error lock_error when nothing is)
        }
        run_case(cs, T, progs, rng.next());
    }
    pika::finalize();
    return 0;
}

// vctl::Rng(seed) and Rng(seed+1) produce the same stream shifted by one draw (x = seed * gamma):
// decorrelate the seeds first
static std::uint64_t mix_seed(std::uint64_t z)
{
    z = (z ^ (z >> 30)) * 0xBF58476D1CE4E5B9ull + 0x632BE59BD9B4E019ull;
    z = (z ^ (z >> 27)) * 0x94D049BB133111EBull;
    return z ^ (z >> 31);
}

int main(int argc, char** argv)
{
    g_seed = mix_seed(argc > 1 ? std::strtoull(argv[1], nullptr, 10) : 1);
    g_ncases = argc > 2 ? std::atoi(argv[2]) : 100;
    g_rm = argc > 3 && std::string(argv[3]) == "rm";    // c06_rt <seed> <n> rm: recursive_mutex_impl<pika::mutex> on tasks
    if (g_rm) g_kind = "RMX";
    pika::verif::hook.store(&hookfn, std::memory_order_release);
    // process-level watchdog: the driver task itself may get stuck inside the code under test
    std::thread([] {
        long last = -1;
        int idle = 0;
        for (;;)
        {
            std::this_thread::sleep_for(std::chrono::seconds(1));
            long h = g_heartbeat.load() + 1000000L * g_case.load();
            if (h == last) ++idle; else idle = 0;
            last = h;
            if (idle >= 25)
            {
                if (g_rm) std::printf("OUT RMX %d occ_bad=0 depth_bad=0 owner_try_fail=0 exc=0 hang=2\n", g_case.load());
                else std::printf("OUT MX %d ev= #mon occ_bad=0 err_bad=0 writes=0 hang=2\n", g_case.load());
                std::fflush(stdout);
                _exit(0);
            }
        }
    }).detach();
    char a0[] = "c06_rt";
    char a1[] = "--pika:threads=4";
    char* av[] = {a0, a1, nullptr};
    int ac = 2;
    pika::init_params ip;
    return pika::init(pika_main, ac, av, ip);
}
