// C14 runtime harness, scenario "identity of the signalling thread when pika tasks share a worker OS thread".
//
// Property text: "the destructor [of a stop_callback] waits for a callback running on another thread but not
// for one running on its own".  On the runtime a "thread" is a pika task; tasks share worker OS threads and
// migrate between them, so "the thread that runs the callback" is NOT an OS thread:
//
//   dtor  task A calls request_stop(); its callback (running inside A) gives up A's worker for ~2 ms (yield loop /
//         sleep_for / both); while the callback is in progress a DIFFERENT task B destroys that stop_callback.
//         B runs on the same worker OS thread on which A entered request_stop (one worker; static pool with
//         equal hints) or on a different one (static pool, different hints; stealing pool).  Monitor: the
//         destructor returns only after the callback finished (flag stored by the callback's last statement,
//         read by B right after `delete`).  The OS thread ids are recorded, the hit is classified by what was
//         observed: same_os_thread_other_task / other_os_thread_other_task.
//   self  the dual: the callback destroys its own stop_callback from inside AFTER its task has given up the worker
//         (and, where the scheduler steals, has migrated to another worker OS thread): the destructor must
//         return at once (it runs on "its own thread" = the same task), the callback runs exactly once and
//         request_stop returns.  Watchdog 10 s -> deadlock.
//
// usage: c14_ident <workers> <static|local> <seed> <n>
// output: IN ID <k> scen=.. ...   OUT ID <k> ...
#include <pika/execution.hpp>
#include <pika/condition_variable.hpp>
#include <pika/init.hpp>
#include <pika/mutex.hpp>
#include <pika/runtime.hpp>
#include <pika/stop_token.hpp>
#include <pika/thread.hpp>

#include <unistd.h>
#include <atomic>
#include <chrono>
#include <cstdint>
#include <cstdio>
#include <cstdlib>
#include <functional>
#include <memory>
#include <mutex>
#include <string>
#include <thread>

namespace ex = pika::execution::experimental;
namespace tt = pika::this_thread::experimental;
using namespace std::chrono_literals;
using clk = std::chrono::steady_clock;

struct Rng
{
    std::uint64_t x;
    explicit Rng(std::uint64_t seed) : x(seed * 0x9E3779B97F4A7C15ull + 0x2468aceull) {}
    std::uint64_t next()
    {
        std::uint64_t z = (x += 0x9E3779B97F4A7C15ull);
        z = (z ^ (z >> 30)) * 0xBF58476D1CE4E5B9ull;
        z = (z ^ (z >> 27)) * 0x94D049BB133111EBull;
        return z ^ (z >> 31);
    }
    std::uint64_t below(std::uint64_t n) { return n ? next() % n : 0; }
    bool chance(unsigned num, unsigned den) { return below(den) < num; }
};

static std::atomic<long> g_beat{0};
static std::atomic<int> g_case{-1};
static char g_scen[16] = "start";

template <typename F>
static auto spawn_on(ex::thread_pool_scheduler const& sched, int worker, F&& f)
{
    auto s = worker >= 0 ? ex::with_hint(sched, pika::execution::thread_schedule_hint(std::int16_t(worker))) : sched;
    return ex::schedule(s) | ex::then(std::forward<F>(f)) | ex::ensure_started();
}

template <typename F>
static bool wait_os(F f, int ms)
{
    auto t0 = clk::now();
    while (!f())
    {
        std::this_thread::sleep_for(50us);
        if (clk::now() - t0 > std::chrono::milliseconds(ms)) return false;
    }
    return true;
}

// pthread_self() is declared __attribute__((const)): the compiler may reuse an earlier result across a yield although the
// task has moved to another OS thread meanwhile; an opaque call keeps every read fresh
__attribute__((noinline)) static std::thread::id os_thread_now()
{
    asm volatile("" ::: "memory");
    return std::this_thread::get_id();
}

using Fn = std::function<void()>;
using Cb = pika::stop_callback<Fn>;

struct Shared
{
    pika::stop_source src;
    std::atomic<Cb*> cb{nullptr};
    std::atomic<bool> in_cb{false}, cb_done{false}, a_done{false}, b_done{false};
    std::atomic<int> early{-1}, ran{0}, req_ret{-1}, migrated{-1}, gave_up_worker{0};
    std::thread::id os_req{}, os_cb_entry{}, os_del{}, os_cb_exit{};
    std::atomic<std::uint64_t> wA{99}, wB{99};
};

// give up the worker for about `us` microseconds: mode 0 yield loop, 1 suspend (pika condition variable, released by a
// plain OS thread after `us`; this pika has no timed suspension), 2 both
struct Nap
{
    pika::concurrency::detail::spinlock m;    // usable from plain OS threads too
    pika::condition_variable_any cv;
    bool go = false;
};
static void leave_worker(int mode, int us)
{
    auto until = clk::now() + std::chrono::microseconds(us);
    if (mode == 1 || mode == 2)
    {
        auto nap = std::make_shared<Nap>();
        std::thread([nap, d = mode == 2 ? us / 2 : us] {
            std::this_thread::sleep_for(std::chrono::microseconds(d));
            { std::unique_lock<pika::concurrency::detail::spinlock> l(nap->m); nap->go = true; }
            nap->cv.notify_all();
        }).detach();
        std::unique_lock<pika::concurrency::detail::spinlock> l(nap->m);
        nap->cv.wait(l, [&] { return nap->go; });
    }
    if (mode == 0 || mode == 2)
        while (clk::now() < until) pika::this_thread::yield();
}

int main(int argc, char** argv)
{
    int workers = argc > 1 ? std::atoi(argv[1]) : 1;
    std::string policy = argc > 2 ? argv[2] : "local";
    std::uint64_t seed = argc > 3 ? std::strtoull(argv[3], nullptr, 10) : 1;
    int n = argc > 4 ? std::atoi(argv[4]) : 50;
    std::thread([] {
        long seen = -1;
        int same = 0;
        for (;;)
        {
            std::this_thread::sleep_for(250ms);
            long cur = g_beat.load();
            same = (cur == seen) ? same + 1 : 0;
            seen = cur;
            if (same >= 120)    // 30 s without progress
            {
                std::printf("OUT ID %d scen=%s hang=1\n", g_case.load(), g_scen);
                std::fflush(stdout);
                _exit(0);
            }
        }
    }).detach();
    std::string wa = "--pika:threads=" + std::to_string(workers);
    std::string qa = "--pika:scheduler=" + std::string(policy == "static" ? "static" : "local-priority-fifo");
    char* av[] = {argv[0], wa.data(), qa.data(), nullptr};
    pika::start(3, av);
    ex::thread_pool_scheduler sched{};
    Rng rng(seed * 7919 + (std::uint64_t) workers * 131 + (policy == "static" ? 17 : 0));
    char const* cfg = policy.c_str();

    for (int cs = 0; cs < n; ++cs)
    {
        g_case = cs;
        ++g_beat;
        bool self = rng.chance(1, 3);
        int mode = (int) rng.below(3);
        int us = 1500 + (int) rng.below(1500);
        int wA = (int) rng.below(workers);
        bool same_w = workers == 1 || rng.chance(1, 2);
        int wB = same_w ? wA : (wA + 1 + (int) rng.below(workers - 1)) % workers;
        auto sh = std::make_shared<Shared>();
        pika::stop_token tok = sh->src.get_token();
        if (!self)
        {
            std::snprintf(g_scen, sizeof g_scen, "dtor");
            std::printf("IN ID %d scen=dtor workers=%d policy=%s cbmode=%d us=%d hintA=%d hintB=%d\n", cs, workers, cfg, mode, us, wA, wB);
            std::fflush(stdout);
            // the callback owns nothing that the destructor of the stop_callback destroys: it copies the shared
            // pointer into a local first, so that running on after a (wrong) early destruction is harmless
            Shared* raw = sh.get();
            sh->cb = new Cb(tok, Fn([raw, mode, us] {
                Shared* s = raw;
                int const m = mode, u = us;
                s->os_cb_entry = os_thread_now();
                s->in_cb = true;
                leave_worker(m, u);
                s->os_cb_exit = os_thread_now();
                s->ran++;
                s->cb_done = true;    // last statement of the callback
            }));
            auto a = spawn_on(sched, wA, [sh] {
                sh->wA = pika::get_worker_thread_num();
                sh->os_req = os_thread_now();    // no suspension point between here and the call
                sh->req_ret = sh->src.request_stop() ? 1 : 0;
                sh->a_done = true;
            });
            auto b = spawn_on(sched, wB, [sh] {
                while (!sh->in_cb.load()) pika::this_thread::yield();
                Cb* p = sh->cb.exchange(nullptr);
                sh->wB = pika::get_worker_thread_num();
                sh->os_del = os_thread_now();    // the OS thread on which the destructor is entered
                delete p;
                sh->early = sh->cb_done.load() ? 0 : 1;      // the destructor returned: has the callback finished?
                sh->b_done = true;
            });
            bool fin = wait_os([&] { return sh->a_done.load() && sh->b_done.load(); }, 10000);
            if (!fin)
            {
                std::printf("OUT ID %d scen=dtor returned=0 a_done=%d b_done=%d in_cb=%d cb_done=%d same_os=%d\n", cs, (int) sh->a_done.load(),
                    (int) sh->b_done.load(), (int) sh->in_cb.load(), (int) sh->cb_done.load(), (int) (sh->os_req == sh->os_del));
                std::fflush(stdout);
                _exit(0);
            }
            tt::sync_wait(std::move(a));
            tt::sync_wait(std::move(b));
            std::printf("OUT ID %d scen=dtor returned=1 early=%d same_os=%d same_os_at_cb_entry=%d ran=%d req=%d wA=%d wB=%d cb_migrated=%d\n", cs,
                sh->early.load(), (int) (sh->os_req == sh->os_del), (int) (sh->os_cb_entry == sh->os_del), sh->ran.load(), sh->req_ret.load(),
                (int) sh->wA.load(), (int) sh->wB.load(), (int) (sh->os_cb_entry != sh->os_cb_exit));
            std::fflush(stdout);
        }
        else
        {
            std::snprintf(g_scen, sizeof g_scen, "self");
            std::printf("IN ID %d scen=self workers=%d policy=%s cbmode=%d us=%d hintA=%d\n", cs, workers, cfg, mode, us, wA);
            std::fflush(stdout);
            Shared* raw = sh.get();
            sh->cb = new Cb(tok, Fn([raw, mode, us, workers, policy_static = policy == "static"] {
                Shared* s = raw;
                int const m = mode, u = us;
                bool const can_migrate = workers > 1 && !policy_static;
                s->os_cb_entry = os_thread_now();
                s->in_cb = true;
                leave_worker(m, u);
                // where tasks are stolen keep yielding until this task runs on another worker OS thread
                auto until = clk::now() + 20ms;
                while (can_migrate && os_thread_now() == s->os_cb_entry && clk::now() < until) pika::this_thread::yield();
                s->migrated = os_thread_now() != s->os_cb_entry ? 1 : 0;
                s->ran++;
                Cb* p = s->cb.exchange(nullptr);
                delete p;    // deregisters itself from inside the callback: must not wait for itself
                s->cb_done = true;
            }));
            auto a = spawn_on(sched, wA, [sh] {
                sh->os_req = os_thread_now();
                sh->req_ret = sh->src.request_stop() ? 1 : 0;
                sh->a_done = true;
            });
            std::atomic<bool> stop_fill{false};
            // a task that hogs A's worker in 300 us chunks and keeps the other workers awake with empty tasks: while the
            // callback's task sits in the hogged worker's queue another worker that runs out of work steals it (stealing
            // schedulers), so the callback continues on another OS thread
            auto filler = spawn_on(sched, wA, [&stop_fill, &sched, workers, wA] {
                while (!stop_fill.load())
                {
                    for (int w = 0; w < workers; ++w)
                        if (w != wA)
                            ex::start_detached(ex::schedule(ex::with_hint(sched, pika::execution::thread_schedule_hint(std::int16_t(w)))) |
                                ex::then([] {}));
                    auto t = clk::now() + 300us;
                    while (clk::now() < t && !stop_fill.load()) {}
                    pika::this_thread::yield();
                }
            });
            bool fin = wait_os([&] { return sh->a_done.load(); }, 10000);
            stop_fill = true;
            if (!fin)
            {
                std::printf("OUT ID %d scen=self returned=0 in_cb=%d cb_done=%d migrated=%d ran=%d\n", cs, (int) sh->in_cb.load(),
                    (int) sh->cb_done.load(), sh->migrated.load(), sh->ran.load());
                std::fflush(stdout);
                _exit(0);
            }
            tt::sync_wait(std::move(a));
            tt::sync_wait(std::move(filler));
            std::printf("OUT ID %d scen=self returned=1 migrated=%d ran=%d req=%d cb_done=%d\n", cs, sh->migrated.load(), sh->ran.load(),
                sh->req_ret.load(), (int) sh->cb_done.load());
            std::fflush(stdout);
        }
    }
    std::snprintf(g_scen, sizeof g_scen, "shutdown");
    pika::finalize();
    int rc = pika::stop();
    std::printf("END ID rc=%d\n", rc);
    return 0;
}
