// harness/c10_place.cpp — C10: work runs where it was sent.
// Drives the REAL runtime: a default pool plus one or two pools created through the resource
// partitioner, pipelines mixing thread_pool_schedulers of different pools
// (execute / schedule / transfer_just / continues_on / bulk / std_thread_scheduler), submitters
// outside (OS threads) and inside (tasks) the runtime.  Every callable records where it runs
// (pool, local and global worker number, pika task id, OS thread id) at its start and after every
// yield / boost-yield / suspension; the records are printed for the monitors (REC lines) and as a
// trace (IN PL) that the extracted model replays as an acceptor.
//
// usage: c10_place <seed> <case> <mode: rand|e6|yieldto|boost|sphint|sphintneg|firstsusp|firstsuspsp> <njobs>
#include <pika/condition_variable.hpp>
#include <pika/execution.hpp>
#include <pika/init.hpp>
#include <pika/modules/resource_partitioner.hpp>
#include <pika/mutex.hpp>
#include <pika/semaphore.hpp>
#include <pika/thread.hpp>
#include <pika/threading_base/thread_data.hpp>

#include <atomic>
#include <chrono>
#include <cstdint>
#include <cstdio>
#include <cstdlib>
#include <deque>
#include <mutex>
#include <string>
#include <thread>
#include <vector>

#include <sys/syscall.h>
#include <unistd.h>

namespace ex = pika::execution::experimental;
namespace tt = pika::this_thread::experimental;
using pika::execution::thread_priority;
using pika::execution::thread_schedule_hint;

struct Rng
{
    std::uint64_t s;
    explicit Rng(std::uint64_t seed)
      : s(seed * 0x9E3779B97F4A7C15ull + 0x1234567ull)
    {
        for (int i = 0; i < 4; ++i) next();
    }
    std::uint64_t next()
    {
        s ^= s << 13;
        s ^= s >> 7;
        s ^= s << 17;
        return s;
    }
    int below(int n) { return int(next() % std::uint64_t(n)); }
};

// ------------------------------------------------------------------ configuration of the case
struct PoolSpec
{
    std::string name;
    std::string policy;    // local, static, static-priority, local-priority-fifo, ...
    int W = 0, H = 0, prio = 0, steal = 0, elastic = 0, offset = 0;
};
static std::vector<PoolSpec> g_pools;    // index 0 = default pool
static std::string g_mode;

static pika::resource::scheduling_policy policy_enum(std::string const& p)
{
    using sp = pika::resource::scheduling_policy;
    if (p == "local") return sp::local;
    if (p == "static") return sp::static_;
    if (p == "static-priority") return sp::static_priority;
    if (p == "local-priority-fifo") return sp::local_priority_fifo;
    if (p == "local-priority-lifo") return sp::local_priority_lifo;
    if (p == "abp-priority-fifo") return sp::abp_priority_fifo;
    if (p == "abp-priority-lifo") return sp::abp_priority_lifo;
    if (p == "shared-priority") return sp::shared_priority;
    return sp::local_priority_fifo;
}
static void policy_props(PoolSpec& p)
{
    if (p.policy == "local") { p.prio = 0; p.steal = 1; }
    else if (p.policy == "static") { p.prio = 0; p.steal = 0; }
    else if (p.policy == "static-priority") { p.prio = 1; p.steal = 0; }
    else { p.prio = 1; p.steal = 1; }
}

static void rp_callback(pika::resource::partitioner& rp, pika::program_options::variables_map const&)
{
    for (std::size_t i = 1; i < g_pools.size(); ++i)
    {
        auto mode = pika::threads::scheduler_mode::default_mode;
        if (g_pools[i].elastic) mode = mode | pika::threads::scheduler_mode::enable_elasticity;
        rp.create_thread_pool(g_pools[i].name, policy_enum(g_pools[i].policy), mode);
    }
    // PUs: the first W0 go to the default pool (implicitly), the following ones to the extra pools
    int n = 0;
    std::size_t pi = 1;
    int used = 0;
    for (auto const& s : rp.sockets())
        for (auto const& c : s.cores())
            for (auto const& p : c.pus())
            {
                if (n >= g_pools[0].W && pi < g_pools.size())
                {
                    rp.add_resource(p, g_pools[pi].name);
                    if (++used == g_pools[pi].W) { ++pi; used = 0; }
                }
                ++n;
            }
}

// ------------------------------------------------------------------ records
struct Rec
{
    char kind;
    int uid, pool, lw, gw;
    std::uint64_t ptid, ostid;
    int a, b;
};
constexpr int MAXR = 400000;
static Rec* recs = new Rec[MAXR];
static std::atomic<int> nrec{0};

static int rec(char kind, int uid, int a = 0, int b = 0)
{
    int i = nrec.fetch_add(1);
    if (i >= MAXR) return -1;
    Rec& r = recs[i];
    r.kind = kind;
    r.uid = uid;
    r.a = a;
    r.b = b;
    auto id = pika::threads::detail::get_self_id();
    r.ptid = reinterpret_cast<std::uint64_t>(id.get());
    r.ostid = std::uint64_t(::syscall(SYS_gettid));
    std::size_t p = pika::get_thread_pool_num(), lw = pika::get_local_worker_thread_num(),
                gw = pika::get_worker_thread_num();
    r.pool = (p == std::size_t(-1) || !id) ? -1 : int(p);
    r.lw = (lw == std::size_t(-1) || !id) ? -1 : int(lw);
    r.gw = (gw == std::size_t(-1) || !id) ? -1 : int(gw);
    return i;
}

// ------------------------------------------------------------------ tasks
struct TaskInfo
{
    int pool = 0;
    char prio = 'n';           // n h l
    int hint = 0;
    bool hinted = false;
    int ctxkind = 0;           // 0 external thread, 1 task
    int ctxid = 0;
    char jobkind = 'e';        // e execute, s schedule, x transfer_just, c continues_on stage, k child
    int stage = 0;
    int next = -1;             // continues_on: uid of the next stage
    std::string prog;
};
constexpr int MAXT = 20000;
static TaskInfo* info = new TaskInfo[MAXT];
static std::atomic<int> nuid{0};
static std::atomic<int> expected{0}, finished{0};
static std::atomic<long> bulk_expected{0}, bulk_done{0};

static std::mutex keep_mtx;
static std::vector<pika::threads::detail::thread_id_ref_type> keep;    // no id is recycled during a case

struct Slot
{
    pika::counting_semaphore<> sem{0};    // may be released from plain OS threads (pika::mutex may not)
    std::atomic<int> state{0};            // 0 unused, 1 waiting, 2 woken
};
constexpr int MAXS = 4096;
static std::deque<Slot> slots(MAXS);
static std::atomic<int> nslot{0};
static pika::mutex g_contended;
static std::atomic<bool> stop_wakers{false};

// firstsusp: hook 205 (condition_variable::wait: waiter enqueued, internal lock released, before
// suspend) keeps the waiter ACTIVE for a few microseconds after it became visible to the wakers, so that
// the unlocking task finds it active and the wake-up goes through the retry helper (set_active_state)
static std::atomic<std::uint64_t> g_hook_ctr{0};
// hook 1001 (set_active_state: the helper has just read the target's last worker for the hint) waits,
// bounded, until the target has left the active state: the retry that follows then finds it suspended
// and queues it with the hint that was read while it was still running its phase.
static void firstsusp_hook(int site, void const* obj, std::uint64_t, std::uint64_t)
{
    if (site == 1001)
    {
        auto const* td = static_cast<pika::threads::detail::thread_data const*>(obj);
        auto t0 = std::chrono::steady_clock::now();
        while (td->get_state().state() == pika::threads::detail::thread_schedule_state::active &&
            std::chrono::steady_clock::now() - t0 < std::chrono::microseconds(300))
        {
        }
        return;
    }
    if (site != 205) return;
    std::uint64_t k = g_hook_ctr.fetch_add(1, std::memory_order_relaxed);
    auto d = std::chrono::nanoseconds(2000 + (k * 2654435761u) % 12000);
    auto t0 = std::chrono::steady_clock::now();
    while (std::chrono::steady_clock::now() - t0 < d) {}
}

static ex::thread_pool_scheduler sched_of(int uid)
{
    TaskInfo const& t = info[uid];
    ex::thread_pool_scheduler s{&pika::resource::get_thread_pool(g_pools[t.pool].name)};
    if (t.prio == 'h') s = ex::with_priority(s, thread_priority::high);
    else if (t.prio == 'l') s = ex::with_priority(s, thread_priority::low);
    if (t.hinted) s = ex::with_hint(s, thread_schedule_hint(std::int16_t(t.hint)));
    // stack size and annotation must not influence placement
    if (uid % 5 == 1) s = ex::with_stacksize(s, pika::execution::thread_stacksize::large);
    else if (uid % 5 == 2) s = ex::with_stacksize(s, pika::execution::thread_stacksize::medium);
    if (uid % 7 == 3) s = ex::with_annotation(s, "c10-annotated");
    return s;
}

static int new_task(Rng& r, int ctxkind, int ctxid, char jobkind, int stage, int maxlen, bool children)
{
    int u = nuid.fetch_add(1);
    if (u >= MAXT) std::abort();
    TaskInfo& t = info[u];
    t.pool = r.below(int(g_pools.size()));
    // bias towards the extra pools (the static ones are there)
    if (g_pools.size() > 1 && r.below(3) != 0) t.pool = 1 + r.below(int(g_pools.size()) - 1);
    int pr = r.below(20);
    t.prio = pr < 15 ? 'n' : (pr < 18 ? 'h' : 'l');
    int W = g_pools[t.pool].W;
    int hk = r.below(10);
    if (hk < 3) { t.hinted = false; }
    else if (hk < 7) { t.hinted = true; t.hint = r.below(W); }
    else if (hk < 9) { t.hinted = true; t.hint = W + r.below(2 * W + 5); }
    else { t.hinted = true; t.hint = -2 - r.below(4); }
    // shared-priority indexes its lookup tables with the raw hint ("@TODO check that the thread num
    // is valid"): out-of-range hints are exercised only by the dedicated scenario (mode sphint)
    if (t.hinted && g_pools[t.pool].policy == "shared-priority" && (t.hint < 0 || t.hint >= W)) t.hint = ((t.hint % W) + W) % W;
    t.ctxkind = ctxkind;
    t.ctxid = ctxid;
    t.jobkind = jobkind;
    t.stage = stage;
    int len = r.below(maxlen + 1);
    static char const ops[] = "yyyuumbs";
    for (int i = 0; i < len; ++i)
    {
        char c = ops[r.below(children ? 8 : 7)];
        t.prog.push_back(c);
    }
    expected.fetch_add(1);
    return u;
}

static void run_body(int uid);

static void submit_execute(int uid)
{
    rec('S', uid);
    ex::execute(sched_of(uid), [uid] { run_body(uid); });
    rec('R', uid);
}

static void run_body(int uid)
{
    {
        pika::threads::detail::thread_id_ref_type k(pika::threads::detail::get_self_id());
        std::lock_guard<std::mutex> l(keep_mtx);
        keep.push_back(std::move(k));
    }
    rec('E', uid);
    TaskInfo& t = info[uid];
    Rng r(std::uint64_t(uid) * 7919u + 13u);
    for (char op : t.prog)
    {
        switch (op)
        {
        case 'y':
            rec('Y', uid);
            pika::this_thread::yield();
            rec('E', uid);
            break;
        case 'b':
        {
            rec('B', uid);
            int k = 0;
            pika::util::yield_while([&] { return ++k < 22; });
            rec('E', uid);
            break;
        }
        case 'u':
        {
            int s = nslot.fetch_add(1);
            if (s >= MAXS) break;
            rec('U', uid, s);
            slots[s].state.store(1);
            slots[s].sem.acquire();
            rec('E', uid);
            break;
        }
        case 'm':
        {
            rec('U', uid, -1);
            {
                std::unique_lock<pika::mutex> lk(g_contended);
                auto t0 = std::chrono::steady_clock::now();
                while (std::chrono::steady_clock::now() - t0 < std::chrono::microseconds(3)) {}
            }
            rec('E', uid);
            break;
        }
        case 's':
        {
            Rng rr(std::uint64_t(uid) * 104729u + r.next() % 1000u);
            int c = new_task(rr, 1, uid, 'k', 0, 3, false);
            submit_execute(c);
            break;
        }
        default: break;
        }
    }
    if (t.next >= 0) rec('S', t.next);    // the transfer to the next scheduler happens when this body returns
    rec('Z', uid);
    finished.fetch_add(1);
}

// wake-ups: even slots directly from this OS thread, odd slots from a (high-priority) task on the
// default pool that this thread spawns (a permanently polling task would starve low-priority work)
static void waker_loop()
{
    ex::thread_pool_scheduler ds = ex::with_priority(
        ex::thread_pool_scheduler{&pika::resource::get_thread_pool("default")}, thread_priority::high);
    while (!stop_wakers.load())
    {
        int n = nslot.load();
        if (n > MAXS) n = MAXS;
        bool any = false;
        for (int s = 0; s < n; ++s)
        {
            if (slots[s].state.load() == 1)
            {
                std::this_thread::sleep_for(std::chrono::microseconds(30));
                slots[s].state.store(2);
                if (s & 1) ex::execute(ds, [s] { slots[s].sem.release(); });
                else slots[s].sem.release();
                any = true;
            }
        }
        if (!any) std::this_thread::sleep_for(std::chrono::microseconds(50));
    }
}

// ------------------------------------------------------------------ job submission
static void submit_job(Rng& r, int ext)
{
    int kind = r.below(12);
    if (kind < 3)
    {
        int u = new_task(r, 0, ext, 'e', 0, 5, true);
        submit_execute(u);
    }
    else if (kind < 5)
    {
        int u = new_task(r, 0, ext, 's', 0, 5, true);
        rec('S', u);
        ex::start_detached(ex::schedule(sched_of(u)) | ex::then([u] { run_body(u); }));
        rec('R', u);
    }
    else if (kind < 6)
    {
        int u = new_task(r, 0, ext, 'x', 0, 4, true);
        rec('S', u);
        ex::start_detached(ex::transfer_just(sched_of(u), 42) | ex::then([u](int) { run_body(u); }));
        rec('R', u);
    }
    else if (kind < 7)
    {
        // just() | continues_on(s): the predecessor completes inside start
        int u = new_task(r, 0, ext, 'j', 0, 4, true);
        rec('S', u);
        ex::start_detached(ex::just() | ex::continues_on(sched_of(u)) | ex::then([u] { run_body(u); }));
        rec('R', u);
    }
    else if (kind < 10)
    {
        int u1 = new_task(r, 0, ext, 'c', 0, 3, true);
        int u2 = new_task(r, 1, u1, 'c', 1, 3, true);
        info[u1].next = u2;
        bool three = r.below(2) == 0;
        if (three)
        {
            int u3 = new_task(r, 1, u2, 'c', 2, 3, false);
            info[u2].next = u3;
            rec('S', u1);
            ex::start_detached(ex::schedule(sched_of(u1)) | ex::then([u1] { run_body(u1); }) |
                ex::continues_on(sched_of(u2)) | ex::then([u2] { run_body(u2); }) |
                ex::continues_on(sched_of(u3)) | ex::then([u3] { run_body(u3); }));
            rec('R', u1);
        }
        else
        {
            rec('S', u1);
            ex::start_detached(ex::schedule(sched_of(u1)) | ex::then([u1] { run_body(u1); }) |
                ex::continues_on(sched_of(u2)) | ex::then([u2] { run_body(u2); }));
            rec('R', u1);
        }
    }
    else if (kind < 11)
    {
        // bulk: monitors only (pool membership, one chunk task per worker under a static policy)
        int u = nuid.fetch_add(1);
        TaskInfo& t = info[u];
        t.pool = r.below(int(g_pools.size()));
        t.prio = 'n';
        t.hinted = false;
        t.ctxkind = 0;
        t.ctxid = ext;
        t.jobkind = 'b';
        int n = 1 + r.below(40);
        bulk_expected.fetch_add(n);
        rec('G', u, n);
        ex::start_detached(ex::schedule(sched_of(u)) | ex::bulk(n, [u](int i) {
            rec('F', u, i);
            bulk_done.fetch_add(1);
        }));
        rec('R', u);
    }
    else
    {
        int u = nuid.fetch_add(1);
        info[u].jobkind = 't';
        info[u].pool = -1;
        info[u].ctxkind = 0;
        info[u].ctxid = ext;
        bulk_expected.fetch_add(1);
        rec('G', u, 1);
        ex::start_detached(ex::schedule(ex::std_thread_scheduler{}) | ex::then([u] {
            rec('T', u);
            bulk_done.fetch_add(1);
        }));
        rec('R', u);
    }
}

static bool wait_all(int seconds)
{
    auto t0 = std::chrono::steady_clock::now();
    while (finished.load() < expected.load() || bulk_done.load() < bulk_expected.load())
    {
        std::this_thread::sleep_for(std::chrono::microseconds(200));
        if (std::chrono::steady_clock::now() - t0 > std::chrono::seconds(seconds)) return false;
    }
    return true;
}

// ------------------------------------------------------------------ output
static void print_all(int caseno, bool completed)
{
    int n = nrec.load();
    if (n > MAXR) n = MAXR;
    int nt = nuid.load();
    for (std::size_t i = 0; i < g_pools.size(); ++i)
    {
        PoolSpec const& p = g_pools[i];
        std::printf("POOL %d %zu %s %s %d %d %d %d %d %d\n", caseno, i, p.name.c_str(), p.policy.c_str(), p.W,
            p.H, p.prio, p.steal, p.elastic, p.offset);
    }
    for (int u = 0; u < nt; ++u)
    {
        TaskInfo const& t = info[u];
        std::printf("TASK %d %d %d %c %s %d %d %c %d %d %s\n", caseno, u, t.pool, t.prio,
            t.hinted ? std::to_string(t.hint).c_str() : "x", t.ctxkind, t.ctxid, t.jobkind, t.stage, t.next,
            t.prog.empty() ? "-" : t.prog.c_str());
    }
    for (int i = 0; i < n; ++i)
    {
        Rec const& r = recs[i];
        std::printf("REC %d %d %c %d %d %d %d %llx %llu %d %d\n", caseno, i, r.kind, r.uid, r.pool, r.lw, r.gw,
            (unsigned long long) r.ptid, (unsigned long long) r.ostid, r.a, r.b);
    }
    if (g_mode == "e6")
    {
        // far too many tasks for a replay: the model side replays the E6 witness schedule instead
        int W = g_pools[1].W, hint = 2, div = 0;
        for (int i = 0; i < n; ++i)
            if (recs[i].kind == 'E' && (recs[i].pool != 1 || recs[i].lw != hint % W)) div = 1;
        std::printf("IN E6 %d W=%d hint=%d prio=%d observed=%d\n", caseno, W, hint, g_pools[1].prio, div);
        std::printf("OUT E6 %d diverted=%d\n", caseno, div);
        std::printf("DONE %d completed=%d expected=%d finished=%d bulk=%ld/%ld\n", caseno, completed ? 1 : 0,
            expected.load(), finished.load(), bulk_done.load(), bulk_expected.load());
        std::fflush(stdout);
        return;
    }
    // the trace for the model
    std::string in = "IN PL " + std::to_string(caseno) + " mode=" + g_mode + " pools=";
    for (std::size_t i = 0; i < g_pools.size(); ++i)
    {
        PoolSpec const& p = g_pools[i];
        if (i) in += ",";
        in += std::to_string(p.W) + ":" + std::to_string(p.H) + ":" + std::to_string(p.prio) + ":" +
            std::to_string(p.steal) + ":" + std::to_string(p.elastic);
    }
    in += " tasks=";
    bool first = true;
    for (int u = 0; u < nt; ++u)
    {
        TaskInfo const& t = info[u];
        if (t.jobkind == 'b' || t.jobkind == 't') continue;
        if (!first) in += ",";
        first = false;
        in += std::to_string(u) + ":" + std::to_string(t.pool) + ":" + t.prio + ":" +
            (t.hinted ? std::to_string(t.hint) : std::string("x")) + ":" + (t.ctxkind ? "t" : "x") +
            std::to_string(t.ctxid);
    }
    if (first) in += "-";
    in += " trace=";
    first = true;
    std::vector<std::string> per(nt);
    for (int i = 0; i < n; ++i)
    {
        Rec const& r = recs[i];
        if (r.kind == 'R' || r.kind == 'G' || r.kind == 'F' || r.kind == 'T') continue;
        if (!first) in += ",";
        first = false;
        in += std::string(1, r.kind) + std::to_string(r.uid) + "@" + std::to_string(r.pool) + "." +
            std::to_string(r.lw);
        if (r.kind == 'K') in += "." + std::to_string(r.a);
        if (r.kind == 'E' && r.uid < nt)
        {
            if (!per[r.uid].empty()) per[r.uid] += ".";
            per[r.uid] += std::to_string(r.pool) + "/" + std::to_string(r.lw);
        }
    }
    if (first) in += "-";
    std::printf("%s\n", in.c_str());
    std::string out = "OUT PL " + std::to_string(caseno) + " ";
    first = true;
    for (int u = 0; u < nt; ++u)
    {
        if (info[u].jobkind == 'b' || info[u].jobkind == 't') continue;
        if (!first) out += ";";
        first = false;
        out += std::to_string(u) + "=" + (per[u].empty() ? std::string("-") : per[u]);
    }
    if (first) out += "-";
    std::printf("%s\n", out.c_str());
    std::printf("DONE %d completed=%d expected=%d finished=%d bulk=%ld/%ld\n", caseno, completed ? 1 : 0,
        expected.load(), finished.load(), bulk_done.load(), bulk_expected.load());
    std::fflush(stdout);
}

int main(int argc, char** argv)
{
    if (argc < 5) return 2;
    std::uint64_t seed = std::strtoull(argv[1], nullptr, 10);
    int caseno = std::atoi(argv[2]);
    g_mode = argv[3];
    int njobs = std::atoi(argv[4]);
    Rng r(seed * 1000003u + std::uint64_t(caseno));

    static char const* pols[] = {"static", "static-priority", "local", "local-priority-fifo",
        "local-priority-lifo", "abp-priority-fifo", "abp-priority-lifo", "shared-priority"};
    std::string defpol = pols[r.below(8)];
    int hp = 0;
    PoolSpec d;
    d.name = "default";
    g_pools.push_back(d);
    if (g_mode == "rand")
    {
        int nextra = 1 + r.below(2);
        for (int i = 0; i < nextra; ++i)
        {
            PoolSpec p;
            p.name = i == 0 ? "A" : "B";
            // the static policies in at least every other extra pool
            int k = (caseno + i) % 2 == 0 ? r.below(2) : r.below(8);
            p.policy = pols[k];
            p.W = 1 + r.below(3);
            p.elastic = (k >= 2 && r.below(4) == 0) ? 1 : 0;
            g_pools.push_back(p);
        }
        g_pools[0].W = 1 + r.below(3);
    }
    else
    {
        PoolSpec p;
        p.name = "A";
        p.W = 4;
        p.policy = (g_mode == "boost") ? "static-priority" : (g_mode == "sphint" || g_mode == "sphintneg") ? "shared-priority" : (r.below(2) ? "static" : "static-priority");
        p.elastic = g_mode == "e6" ? 1 : 0;
        g_pools.push_back(p);
        g_pools[0].W = 2;
        if (g_mode == "boost")
        {
            defpol = "local-priority-fifo";
            hp = 2;
        }
    }
    // firstsusp with a shared-priority default pool crashed sporadically BEFORE the first-phase wake-up repair
    // (SIGSEGV in about 1 of 15 runs of `1 20 firstsusp 400`): the wake-up of a task in its first phase carried
    // thread_schedule_hint(int16(-1)) and shared_priority_queue_scheduler::schedule_work indexes d_lookup_ /
    // q_lookup_ with the raw hint (the defect of finding C10:shared_priority:hint_out_of_range, reached through
    // set_active_state -> set_thread_state -> schedule_thread).  Since the scheduling loop records the worker
    // at the start of every phase no wake-up carries -1 any more (0 crashes in 400 runs), so shared-priority is
    // drawn again, and mode firstsuspsp forces it.
    if (g_mode == "firstsuspsp") defpol = "shared-priority";
    g_pools[0].policy = defpol;
    int total = 0;
    for (auto& p : g_pools)
    {
        policy_props(p);
        p.H = (p.prio && hp) ? hp : p.W;
        p.offset = total;
        total += p.W;
    }

    std::string a0 = argv[0], a1 = "--pika:threads=" + std::to_string(total),
                a2 = "--pika:scheduler=" + (defpol == "local-priority-fifo" && hp ? std::string("local-priority") : defpol),
                a3 = "--pika:high-priority-threads=" + std::to_string(hp);
    std::vector<char*> av = {a0.data(), a1.data(), a2.data()};
    if (hp) av.push_back(a3.data());
    av.push_back(nullptr);
    pika::init_params ip;
    ip.rp_callback = &rp_callback;
    pika::start(int(av.size()) - 1, av.data(), ip);

    // sanity: the pools exist with the sizes we asked for
    for (auto& p : g_pools)
    {
        auto& pool = pika::resource::get_thread_pool(p.name);
        if (int(pool.get_os_thread_count()) != p.W)
        {
            std::printf("TIEFAIL pool %s has %zu threads, expected %d\n", p.name.c_str(), pool.get_os_thread_count(), p.W);
            std::fflush(stdout);
            std::_Exit(3);
        }
    }

    std::thread waker0([] { waker_loop(); });

    bool ok = true;
    if (g_mode == "rand")
    {
        std::uint64_t s0 = r.next(), s1 = r.next();
        auto sub = [&](int ext, std::uint64_t sd, int n) {
            Rng rr(sd);
            for (int i = 0; i < n; ++i) submit_job(rr, ext);
        };
        std::thread t0(sub, 0, s0, njobs / 2), t1(sub, 1, s1, njobs - njobs / 2);
        t0.join();
        t1.join();
        ok = wait_all(30);
    }
    else if (g_mode == "e6")
    {
        // two OS threads submit tasks hinted to the same worker of the elastic static pool
        std::atomic<bool> go{false};
        // the submission loops are tight (records of the submissions are written before the
        // race starts) so that the two submitters really overlap inside select_active_pu
        std::atomic<int> ready{0};
        auto sub = [&](int ext, int n) {
            std::vector<int> us;
            for (int i = 0; i < n; ++i)
            {
                int u = nuid.fetch_add(1);
                TaskInfo& t = info[u];
                t.pool = 1;
                t.hinted = true;
                t.hint = 2;
                t.ctxkind = 0;
                t.ctxid = ext;
                expected.fetch_add(1);
                rec('S', u);
                us.push_back(u);
            }
            auto s = sched_of(us[0]);
            ready.fetch_add(1);
            while (!go.load()) {}
            for (int u : us) ex::execute(s, [u] { run_body(u); });
        };
        std::thread t0(sub, 0, njobs), t1(sub, 1, njobs);
        while (ready.load() < 2) {}
        go = true;
        t0.join();
        t1.join();
        ok = wait_all(30);
    }
    else if (g_mode == "yieldto")
    {
        // task ua (hint 2) yields in a loop; task ub (hint 1) names it in this_thread::yield_to
        int ua = nuid.fetch_add(1), ub = nuid.fetch_add(1);
        info[ua].pool = info[ub].pool = 1;
        info[ua].hinted = info[ub].hinted = true;
        info[ua].hint = 2;
        info[ub].hint = 1;
        info[ua].ctxid = info[ub].ctxid = 0;
        expected.fetch_add(2);
        static pika::thread::id target;
        static std::atomic<bool> have{false}, bdone{false};
        rec('S', ua);
        ex::execute(sched_of(ua), [ua] {
            {
                pika::threads::detail::thread_id_ref_type k(pika::threads::detail::get_self_id());
                std::lock_guard<std::mutex> l(keep_mtx);
                keep.push_back(std::move(k));
            }
            rec('E', ua);
            target = pika::this_thread::get_id();
            have = true;
            // yields until ub is done; every phase is recorded at the beginning, later only the
            // phases that start on another worker than the last recorded one (the acceptor
            // inserts the unrecorded yields itself)
            int lastw = int(pika::get_local_worker_thread_num());
            auto t0 = std::chrono::steady_clock::now();
            for (int i = 0; !(bdone.load() && i > 40); ++i)
            {
                if (i < 40) rec('Y', ua);
                pika::this_thread::yield();
                int w = int(pika::get_local_worker_thread_num());
                if (i < 40 || w != lastw) rec('E', ua);
                lastw = w;
                if ((i & 1023) == 0 && std::chrono::steady_clock::now() - t0 > std::chrono::seconds(5)) break;
            }
            rec('Z', ua);
            finished.fetch_add(1);
        });
        rec('R', ua);
        rec('S', ub);
        ex::execute(sched_of(ub), [ua, ub, njobs] {
            {
                pika::threads::detail::thread_id_ref_type k(pika::threads::detail::get_self_id());
                std::lock_guard<std::mutex> l(keep_mtx);
                keep.push_back(std::move(k));
            }
            rec('E', ub);
            while (!have.load()) pika::this_thread::yield();
            rec('E', ub);
            for (int i = 0; i < njobs; ++i)
            {
                rec('K', ub, ua);
                pika::this_thread::yield_to(target);
                rec('E', ub);
            }
            bdone = true;
            rec('Z', ub);
            finished.fetch_add(1);
        });
        rec('R', ub);
        ok = wait_all(30);
    }
    else if (g_mode == "firstsusp" || g_mode == "firstsuspsp")
    {
        // wake-up of a task whose FIRST phase ends in a suspension: many tasks (3 of 4 hinted, most on the
        // static pool A) whose very first action is to lock the contended pika::mutex, submitted by two OS
        // threads; the unlocking tasks are the wakers (do_resume, and the "set state for active thread"
        // helper whenever the waiter it pops has enqueued itself but is not suspended yet).  A wake-up
        // that is queued with anything but the worker of the first phase moves a task of a static pool.
        pika::verif::hook.store(&firstsusp_hook, std::memory_order_release);
        auto sub = [&](int ext, int n) {
            Rng rr(seed * 7919u + std::uint64_t(caseno) * 31u + std::uint64_t(ext));
            for (int i = 0; i < n; ++i)
            {
                int u = nuid.fetch_add(1);
                if (u >= MAXT) std::abort();
                TaskInfo& t = info[u];
                t.pool = rr.below(6) == 0 ? 0 : 1;
                t.prio = 'n';
                t.hinted = rr.below(4) != 0;
                t.hint = rr.below(g_pools[t.pool].W);
                t.ctxkind = 0;
                t.ctxid = ext;
                t.jobkind = 'e';
                t.prog = "m";
                if (rr.below(2)) t.prog += "y";
                if (rr.below(3) == 0) t.prog += "m";
                expected.fetch_add(1);
                submit_execute(u);
            }
        };
        std::thread t0(sub, 0, njobs / 2), t1(sub, 1, njobs - njobs / 2);
        t0.join();
        t1.join();
        ok = wait_all(30);
    }
    else if (g_mode == "sphint" || g_mode == "sphintneg")
    {
        // shared-priority pool, thread hint far outside [0, W)
        for (int i = 0; i < njobs; ++i)
        {
            int u = nuid.fetch_add(1);
            TaskInfo& t = info[u];
            t.pool = 1;
            t.hinted = true;
            // sphint: far beyond W; sphintneg: -1, the value a wake-up carried before the scheduling loop recorded
            // the worker at the start of every phase (thread_schedule_hint(int16(-1)) has mode `thread`)
            t.hint = (g_mode == "sphintneg") ? -1 : 30000 + i;
            t.ctxid = 0;
            expected.fetch_add(1);
            submit_execute(u);
        }
        ok = wait_all(10);
    }
    else if (g_mode == "boost")
    {
        // static-priority pool with 2 high-priority queues for 4 workers; tasks hinted to workers 2, 3
        for (int i = 0; i < njobs; ++i)
        {
            int u = nuid.fetch_add(1);
            TaskInfo& t = info[u];
            t.pool = 1;
            t.hinted = true;
            t.hint = 2 + (i & 1);
            t.ctxid = 0;
            t.prog = (i % 3 == 0) ? "yb" : ((i % 3 == 1) ? "by" : "ybuy");
            expected.fetch_add(1);
            submit_execute(u);
        }
        ok = wait_all(30);
    }
    stop_wakers = true;
    waker0.join();
    // give the in-runtime waker a chance to leave, then release the kept ids while the runtime is alive
    std::this_thread::sleep_for(std::chrono::milliseconds(2));
    print_all(caseno, ok);
    if (!ok) std::_Exit(4);    // something hangs: do not try to shut the runtime down
    {
        std::lock_guard<std::mutex> l(keep_mtx);
        keep.clear();
    }
    pika::finalize();
    pika::stop();
    return 0;
}
