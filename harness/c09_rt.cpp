// C09 runtime harness: the real latch / barrier / event / call_once on the running pika runtime
// (4 workers, more participants than workers) with monitors that evaluate the property itself:
//   barrier : per-phase arrival counters (nobody departs phase k before all expected arrivals of
//             phase k were issued), completion counter (exactly once per phase, when all have
//             arrived, before anybody is released), arrive_and_drop, > 128 phases (byte wrap)
//   latch   : shadow counter of issued decrements (a waiter that returns must see them all);
//             the F12 scenario: a notified timed condition-variable wait followed by
//             latch::wait / arrive_and_wait in the same scheduling phase
//   once    : body counter, overlapping bodies, "returned before finished", exceptions, retry
//   event   : "returned before set", all waiters released, waiters arriving after set
//   LSEQ    : sequential programs on one OS thread, replayed by the model (IN/OUT lines)
// A hang of the real code becomes `MONITOR <section>:stuck` (watchdog), never a hung harness.
#include "common/ctl.hpp"

#include <pika/barrier.hpp>
#include <pika/condition_variable.hpp>
#include <pika/execution.hpp>
#include <pika/init.hpp>
#include <pika/latch.hpp>
#include <pika/mutex.hpp>
#include <pika/synchronization/event.hpp>
#include <pika/synchronization/once.hpp>
#include <pika/thread.hpp>

#include <atomic>
#include <chrono>
#include <cstdio>
#include <memory>
#include <sstream>
#include <stdexcept>
#include <string>
#include <thread>
#include <vector>

using namespace std::chrono_literals;
using clk = std::chrono::steady_clock;
namespace ex = pika::execution::experimental;
namespace tt = pika::this_thread::experimental;

namespace {
    std::atomic<std::uint64_t> g_progress{0};
    std::atomic<char const*> g_section{"startup"};
    std::atomic<bool> g_done{false};
    std::atomic<int> g_monitor_hits{0};

    void monitor(char const* sig, std::string const& detail)
    {
        if (g_monitor_hits++ < 20)
        {
            std::printf("MONITOR %s %s\n", sig, detail.c_str());
            std::fflush(stdout);
        }
    }
    void tick() { g_progress.fetch_add(1, std::memory_order_relaxed); }

    void watchdog(int limit_ms)
    {
        std::uint64_t last = g_progress.load();
        auto since = clk::now();
        while (!g_done.load())
        {
            std::this_thread::sleep_for(50ms);
            std::uint64_t now = g_progress.load();
            if (now != last)
            {
                last = now;
                since = clk::now();
            }
            else if (clk::now() - since > std::chrono::milliseconds(limit_ms))
            {
                std::printf("MONITOR %s:stuck no progress for %d ms (a participant never returned)\n", g_section.load(), limit_ms);
                std::fflush(stdout);
                std::_Exit(0);
            }
        }
    }

    template <typename F>
    void spawn(ex::thread_pool_scheduler& sched, F f)
    {
        ex::start_detached(ex::schedule(sched) | ex::then(std::move(f)));
    }
    void wait_for(std::atomic<int>& counter, int target)
    {
        while (counter.load() < target) pika::this_thread::yield();
    }

    // ------------------------------------------------------------------ barrier
    struct BarShared
    {
        int N, K;
        std::vector<int> expected;                       // per phase
        std::unique_ptr<std::atomic<int>[]> arrivals;    // issued arrivals per phase
        std::atomic<int> completions{0};
        std::atomic<int> bad{0};
        int id;
    };
    struct BarCompletion
    {
        BarShared* s;
        void operator()() noexcept
        {
            int k = s->completions.load();
            if (k < s->K && s->arrivals[k].load() != s->expected[k] && s->bad++ == 0)
                monitor("barrier:completion_before_all_arrived",
                    "case=" + std::to_string(s->id) + " phase=" + std::to_string(k) + " arrived=" +
                        std::to_string(s->arrivals[k].load()) + " expected=" + std::to_string(s->expected[k]));
            // widen the window between the completion and the publication of the new phase
            auto t0 = clk::now();
            while (clk::now() - t0 < 3us) {}
            s->completions.fetch_add(1);
            tick();
        }
    };

    void barrier_cases(ex::thread_pool_scheduler& sched, vctl::Rng& rng, int ncases)
    {
        g_section = "barrier";
        for (int cs = 0; cs < ncases; ++cs)
        {
            BarShared s;
            s.id = cs;
            s.N = 2 + (int) rng.below(11);                 // 2..12 participants on 4 workers
            s.K = rng.chance(1, 12) ? 135 + (int) rng.below(10) : 3 + (int) rng.below(30);
            std::vector<int> drop_at(s.N, -1);
            for (int i = 1; i < s.N; ++i)                   // participant 0 never drops
                if (rng.chance(1, 4)) drop_at[i] = (int) rng.below(s.K);
            s.expected.assign(s.K, 0);
            for (int k = 0; k < s.K; ++k)
                for (int i = 0; i < s.N; ++i)
                    if (drop_at[i] < 0 || drop_at[i] >= k) ++s.expected[k];
            s.arrivals.reset(new std::atomic<int>[s.K]);
            for (int k = 0; k < s.K; ++k) s.arrivals[k] = 0;
            std::vector<int> mode(s.N);
            for (auto& m : mode) m = (int) rng.below(3);
            pika::barrier<BarCompletion> bar(s.N, BarCompletion{&s});
            std::atomic<int> finished{0};
            for (int i = 0; i < s.N; ++i)
                spawn(sched, [&, i] {
                    for (int k = 0; k < s.K; ++k)
                    {
                        s.arrivals[k].fetch_add(1);
                        if (k == drop_at[i])
                        {
                            bar.arrive_and_drop();
                            break;
                        }
                        if (mode[i] == 0)
                            bar.arrive_and_wait();
                        else
                        {
                            auto tok = bar.arrive();
                            if (mode[i] == 2) pika::this_thread::yield();
                            bar.wait(std::move(tok));
                        }
                        int a = s.arrivals[k].load(), c = s.completions.load();
                        if (a < s.expected[k] && s.bad++ == 0)
                            monitor("barrier:early_departure",
                                "case=" + std::to_string(cs) + " N=" + std::to_string(s.N) + " phase=" + std::to_string(k) +
                                    " participant=" + std::to_string(i) + " left with " + std::to_string(a) + " of " +
                                    std::to_string(s.expected[k]) + " arrivals");
                        if (c < k + 1 && s.bad++ == 0)
                            monitor("barrier:release_before_completion",
                                "case=" + std::to_string(cs) + " N=" + std::to_string(s.N) + " phase=" + std::to_string(k) +
                                    " participant=" + std::to_string(i) + " released with " + std::to_string(c) +
                                    " completions run");
                        tick();
                    }
                    ++finished;
                });
            wait_for(finished, s.N);
            if (s.completions.load() != s.K && s.bad++ == 0)
                monitor("barrier:completion_count",
                    "case=" + std::to_string(cs) + " N=" + std::to_string(s.N) + " phases=" + std::to_string(s.K) +
                        " completions=" + std::to_string(s.completions.load()));
            int drops = 0;
            for (int d : drop_at) drops += d >= 0;
            std::printf("STAT barrier case=%d N=%d K=%d drops=%d ok=%d\n", cs, s.N, s.K, drops, s.bad.load() == 0);
        }
    }

    // ------------------------------------------------------------------ latch
    void latch_general(ex::thread_pool_scheduler& sched, vctl::Rng& rng, int ncases)
    {
        g_section = "latch";
        for (int cs = 0; cs < ncases; ++cs)
        {
            int C = (int) rng.below(7);                    // 0..6
            int W = 1 + (int) rng.below(8);                // plain waiters
            int A = (int) rng.below(std::min(C, 4) + 1);   // arrive_and_wait(1) participants
            int rest = C - A;
            std::vector<int> dec;                          // count_down(n) calls, n may be 0
            while (rest > 0)
            {
                int n = 1 + (int) rng.below(std::min(rest, 3));
                dec.push_back(n);
                rest -= n;
            }
            if (rng.chance(1, 3)) dec.push_back(0);
            pika::latch L(C);
            std::atomic<int> issued{0}, finished{0}, bad{0};
            auto check = [&](char const* what, int i) {
                int is = issued.load();
                if (is < C && bad++ == 0)
                    monitor("latch:early_return",
                        std::string(what) + " returned with " + std::to_string(is) + " of " + std::to_string(C) +
                            " decrements issued (case=" + std::to_string(cs) + " participant=" + std::to_string(i) + ")");
                else if (!L.try_wait() && bad++ == 0)
                    monitor("latch:early_return", std::string(what) + " returned but try_wait() is false (case=" + std::to_string(cs) + ")");
                tick();
            };
            int total = W + A + (int) dec.size();
            std::vector<int> order(total);
            for (int i = 0; i < total; ++i) order[i] = i;
            for (int i = total - 1; i > 0; --i) std::swap(order[i], order[rng.below(i + 1)]);
            for (int idx : order)
            {
                if (idx < W)
                    spawn(sched, [&, idx] {
                        if (idx % 2) pika::this_thread::yield();
                        L.wait();
                        check("wait", idx);
                        ++finished;
                    });
                else if (idx < W + A)
                    spawn(sched, [&, idx] {
                        issued.fetch_add(1);
                        L.arrive_and_wait(1);
                        check("arrive_and_wait", idx);
                        ++finished;
                    });
                else
                {
                    int n = dec[idx - W - A];
                    spawn(sched, [&, n] {
                        issued.fetch_add(n);
                        L.count_down(n);
                        tick();
                        ++finished;
                    });
                }
            }
            wait_for(finished, total);
            std::printf("STAT latch case=%d C=%d waiters=%d aw=%d decs=%zu ok=%d\n", cs, C, W, A, dec.size(), bad.load() == 0);
        }
    }

    // F12: a notified *timed* wait leaves a pending wake-up behind (the retry helper of
    // set_thread_state); the next suspension of the same scheduling phase returns at once.
    void latch_f12(ex::thread_pool_scheduler& sched, int trials)
    {
        g_section = "latch_f12";
        pika::condition_variable_any cv;
        pika::mutex m;
        std::atomic<int> armed{0};
        std::atomic<bool> stop{false};
        struct Job
        {
            pika::latch* l;
            pika::experimental::event* ev;
            std::atomic<bool>* released;
            std::atomic<bool>* done;
        };
        std::atomic<Job*> job{nullptr};
        std::thread notifier([&] {
            vctl::Rng r(7);
            int last = 0;
            while (!stop)
            {
                int a = armed.load();
                if (a == last)
                {
                    std::this_thread::yield();
                    continue;
                }
                last = a;
                auto d = std::chrono::microseconds(150 + r.below(120));
                auto t0 = clk::now();
                while (clk::now() - t0 < d) {}
                cv.notify_one();
            }
        });
        std::thread releaser([&] {
            while (!stop)
            {
                Job* j = job.exchange(nullptr);
                if (!j)
                {
                    std::this_thread::yield();
                    continue;
                }
                auto t0 = clk::now();
                while (clk::now() - t0 < 400us) {}
                j->released->store(true);
                if (j->ev)
                    j->ev->set();
                else
                    j->l->count_down(1);
                j->done->store(true);    // the releaser no longer touches the primitive
            }
        });
        int early_wait = 0, early_aw = 0, early_ev = 0, signaled = 0;
        tt::sync_wait(ex::schedule(sched) | ex::then([&] {
            for (int i = 1; i <= trials; ++i)
            {
                int kind = i % 3;    // 0: latch::wait, 1: latch::arrive_and_wait, 2: event::wait
                bool aw = kind == 1;
                pika::latch L(aw ? 2 : 1);
                pika::experimental::event EV;
                std::atomic<bool> released{false}, done{false};
                Job j{&L, kind == 2 ? &EV : nullptr, &released, &done};
                {
                    std::unique_lock<pika::mutex> lk(m);
                    armed = i;
                    auto st = cv.wait_for(lk, 200us);
                    if (st == pika::cv_status::no_timeout) ++signaled;
                }
                job = &j;    // the releaser counts down 400 us from now
                if (kind == 2)
                    EV.wait();
                else if (aw)
                    L.arrive_and_wait(1);
                else
                    L.wait();
                if (!released.load()) (kind == 2 ? early_ev : aw ? early_aw : early_wait)++;
                while (!done.load()) pika::this_thread::yield();    // L must outlive count_down
                tick();
            }
        }));
        stop = true;
        notifier.join();
        releaser.join();
        if (early_wait)
            monitor("latch:early_return_after_timed_wait",
                "latch::wait returned while the count was 1 in " + std::to_string(early_wait) + " of " +
                    std::to_string(trials / 3) + " trials (" + std::to_string(signaled) + " timed waits were notified)");
        if (early_aw)
            monitor("latch:early_return_after_timed_wait",
                "latch::arrive_and_wait returned while the count was 1 in " + std::to_string(early_aw) + " of " +
                    std::to_string(trials / 3) + " trials");
        if (early_ev)
            monitor("event:returned_before_set_after_timed_wait",
                "event::wait returned before set() in " + std::to_string(early_ev) + " of " + std::to_string(trials / 3) +
                    " trials in which the waiter's previous blocking call was a notified timed wait");
        std::printf("STAT latch_f12 trials=%d notified=%d early_wait=%d early_aw=%d early_event=%d\n", trials, signaled, early_wait,
            early_aw, early_ev);
    }

    // ------------------------------------------------------------------ call_once
    void once_cases(ex::thread_pool_scheduler& sched, vctl::Rng& rng, int ncases)
    {
        g_section = "once";
        for (int cs = 0; cs < ncases; ++cs)
        {
            int M = 2 + (int) rng.below(10);
            int F = (int) rng.below(std::min(3, M));    // the first F runs throw
            int spin = (int) rng.below(4);
            pika::once_flag flag;
            std::atomic<int> in_body{0}, runs{0}, successes{0}, thrown{0}, returned{0}, finished{0}, bad{0};
            std::atomic<bool> body_finished{false};
            auto body = [&] {
                if (in_body.fetch_add(1) != 0 && bad++ == 0)
                    monitor("once:overlap", "two runs of the callable overlap (case=" + std::to_string(cs) + ")");
                int r = runs.fetch_add(1);
                if (body_finished.load() && bad++ == 0)
                    monitor("once:ran_again", "the callable ran again after a successful run (case=" + std::to_string(cs) + ")");
                for (int k = 0; k < spin; ++k) pika::this_thread::yield();
                if (r < F)
                {
                    in_body.fetch_sub(1);
                    throw std::runtime_error("once body");
                }
                body_finished = true;
                ++successes;
                in_body.fetch_sub(1);
            };
            for (int i = 0; i < M; ++i)
                spawn(sched, [&, i] {
                    if (i % 3 == 1) pika::this_thread::yield();
                    try
                    {
                        pika::call_once(flag, body);
                        if (!body_finished.load() && bad++ == 0)
                            monitor("once:returned_before_finished",
                                "call_once returned before the callable finished (case=" + std::to_string(cs) + " caller=" + std::to_string(i) + ")");
                        ++returned;
                    }
                    catch (std::runtime_error const&)
                    {
                        ++thrown;
                    }
                    tick();
                    ++finished;
                });
            wait_for(finished, M);
            if ((successes.load() != 1 || runs.load() != F + 1 || thrown.load() != F || returned.load() != M - F) && bad++ == 0)
                monitor("once:counts",
                    "case=" + std::to_string(cs) + " callers=" + std::to_string(M) + " throwing_runs=" + std::to_string(F) +
                        ": runs=" + std::to_string(runs.load()) + " successes=" + std::to_string(successes.load()) +
                        " rethrown=" + std::to_string(thrown.load()) + " returned=" + std::to_string(returned.load()));
            std::printf("STAT once case=%d callers=%d throws=%d ok=%d\n", cs, M, F, bad.load() == 0);
        }
    }

    // call_once after a throw (F19): the thrower is delayed between its two hand-back steps (hook
    // 930).  With the original order (status first, event second) the next runner's reset() is
    // overtaken by the late set(); all waiting callers then spin without yielding and the run of
    // the callable, which yields, never gets a worker again: the watchdog reports once_retry:stuck.
    void once_hook(int site, void const*, std::uint64_t, std::uint64_t)
    {
        if (site != 930) return;
        auto t0 = clk::now();
        while (clk::now() - t0 < 300us) {}
    }
    void once_retry_cases(ex::thread_pool_scheduler& sched, vctl::Rng& rng, int ncases)
    {
        g_section = "once_retry";
        pika::verif::hook.store(&once_hook, std::memory_order_release);
        for (int cs = 0; cs < ncases; ++cs)
        {
            int M = 10 + (int) rng.below(5);
            int const F = 1;    // the first run throws at once; callers keep arriving for 600 us
            std::vector<int> late(M);
            for (auto& x : late) x = 20 + (int) rng.below(580);
            late[0] = 0;
            pika::once_flag flag;
            std::atomic<int> runs{0}, successes{0}, thrown{0}, returned{0}, finished{0};
            auto body = [&] {
                int r = runs.fetch_add(1);
                if (r < F) throw std::runtime_error("once body");
                for (int k = 0; k < 30; ++k)
                {
                    auto t1 = clk::now();
                    while (clk::now() - t1 < 5us) {}
                    pika::this_thread::yield();
                }
                ++successes;
            };
            auto const t0 = clk::now();
            for (int i = 0; i < M; ++i)
                spawn(sched, [&, i] {
                    while (clk::now() - t0 < std::chrono::microseconds(late[i])) pika::this_thread::yield();
                    try
                    {
                        pika::call_once(flag, body);
                        ++returned;
                    }
                    catch (std::runtime_error const&)
                    {
                        ++thrown;
                    }
                    tick();
                    ++finished;
                });
            wait_for(finished, M);
            if (successes.load() != 1 || thrown.load() != F || returned.load() != M - F)
                monitor("once:counts",
                    "retry case=" + std::to_string(cs) + " callers=" + std::to_string(M) + " throwing_runs=" + std::to_string(F) +
                        ": runs=" + std::to_string(runs.load()) + " successes=" + std::to_string(successes.load()) +
                        " rethrown=" + std::to_string(thrown.load()) + " returned=" + std::to_string(returned.load()));
            std::printf("STAT once_retry case=%d callers=%d throws=%d\n", cs, M, F);
        }
        pika::verif::hook.store(nullptr, std::memory_order_release);
    }

    // ------------------------------------------------------------------ event
    void event_cases(ex::thread_pool_scheduler& sched, vctl::Rng& rng, int ncases)
    {
        g_section = "event";
        for (int cs = 0; cs < ncases; ++cs)
        {
            int M = 1 + (int) rng.below(10);
            int late = (int) rng.below(4);
            int delay = (int) rng.below(4);
            pika::experimental::event ev;
            std::atomic<bool> set_called{false};
            std::atomic<int> finished{0}, bad{0};
            auto waiter = [&](int i) {
                if (i % 2) pika::this_thread::yield();
                ev.wait();
                if (!set_called.load() && bad++ == 0)
                    monitor("event:returned_before_set", "event::wait returned before set() was called (case=" + std::to_string(cs) + ")");
                if (!ev.occurred() && bad++ == 0)
                    monitor("event:returned_before_set", "event::wait returned but occurred() is false (case=" + std::to_string(cs) + ")");
                tick();
                ++finished;
            };
            for (int i = 0; i < M; ++i) spawn(sched, [&, i] { waiter(i); });
            spawn(sched, [&] {
                for (int k = 0; k < delay; ++k) pika::this_thread::yield();
                set_called = true;
                ev.set();
                ++finished;
            });
            wait_for(finished, M + 1);
            for (int i = 0; i < late; ++i) spawn(sched, [&, i] { waiter(i); });    // future waiters
            wait_for(finished, M + 1 + late);
            std::printf("STAT event case=%d waiters=%d late=%d ok=%d\n", cs, M, late, bad.load() == 0);
        }
    }

    // ------------------------------------------------------------------ LSEQ
    void latch_sequential(vctl::Rng& rng, int ncases)
    {
        g_section = "latch_seq";
        for (int cs = 0; cs < ncases; ++cs)
        {
            int C = (int) rng.below(8);
            int len = 1 + (int) rng.below(8);
            pika::latch L(C);
            int remaining = C;
            std::ostringstream ops, tries;
            int rets = 0;
            for (int k = 0; k < len; ++k)
            {
                int what = (int) rng.below(4);
                if (k) ops << ",";
                if (what == 0 && remaining > 0)
                {
                    int n = 1 + (int) rng.below(remaining);
                    if (rng.chance(1, 5)) n = 0;
                    ops << "c" << n;
                    L.count_down(n);
                    remaining -= n;
                }
                else if (what == 1 && remaining == 0)
                {
                    ops << "w";
                    L.wait();
                    ++rets;
                }
                else if (what == 2 && remaining > 0)
                {
                    ops << "a" << remaining;    // the last arriver: does not block
                    L.arrive_and_wait(remaining);
                    remaining = 0;
                    ++rets;
                }
                else
                {
                    ops << "t";
                    tries << (L.try_wait() ? "1" : "0");
                }
                tick();
            }
            std::printf("IN LSEQ %d %d %s\n", cs, C, ops.str().c_str());
            std::printf("OUT LSEQ %d try=%s rets=%d done=1\n", cs, tries.str().empty() ? "-" : tries.str().c_str(), rets);
        }
        std::fflush(stdout);
    }

    // ------------------------------------------------------------------ OSEQ
    // one OS thread calls call_once several times on one flag; plan[i] says whether the i-th run of
    // the callable throws.  The model replays the calls with the same outcomes (oracle).
    void once_sequential(vctl::Rng& rng, int ncases)
    {
        g_section = "once_seq";
        for (int cs = 0; cs < ncases; ++cs)
        {
            int K = 1 + (int) rng.below(6);
            std::string plan;
            for (int i = 0; i < K; ++i) plan.push_back(rng.chance(2, 5) ? '1' : '0');    // 1 = throws
            pika::once_flag flag;
            std::ostringstream ev;
            int runs = 0;
            for (int k = 0; k < K; ++k)
            {
                try
                {
                    pika::call_once(flag, [&] {
                        ev << "B";
                        bool th = plan[runs++] == '1';
                        ev << (th ? "e" : "E");
                        if (th) throw std::runtime_error("x");
                    });
                    ev << "R";
                }
                catch (std::runtime_error const&)
                {
                    ev << "T";
                }
                tick();
            }
            std::printf("IN OSEQ %d %d %s\n", cs, K, plan.c_str());
            std::printf("OUT OSEQ %d log=%s\n", cs, ev.str().c_str());
        }
        std::fflush(stdout);
    }
}    // namespace

int main(int argc, char** argv)
{
    std::uint64_t seed = argc > 1 ? std::strtoull(argv[1], nullptr, 10) : 1;
    int scale = argc > 2 ? std::atoi(argv[2]) : 1;
    int f12_trials = argc > 3 ? std::atoi(argv[3]) : 3000;
    std::thread wd(watchdog, 15000);
    vctl::Rng rng(seed);
    latch_sequential(rng, 200 * scale);
    once_sequential(rng, 200 * scale);
    char* av[] = {argv[0], (char*) "--pika:threads=4", nullptr};
    int ac = 2;
    pika::start(ac, av);
    {
        ex::thread_pool_scheduler sched{};
        tt::sync_wait(ex::schedule(sched) | ex::then([&] {
            barrier_cases(sched, rng, 40 * scale);
            std::fflush(stdout);
            latch_general(sched, rng, 300 * scale);
            std::fflush(stdout);
            once_cases(sched, rng, 200 * scale);
            std::fflush(stdout);
            once_retry_cases(sched, rng, 60 * scale);
            std::fflush(stdout);
            event_cases(sched, rng, 200 * scale);
            std::fflush(stdout);
        }));
        latch_f12(sched, f12_trials);
    }
    g_section = "shutdown";
    pika::finalize();
    int rc = pika::stop();
    g_done = true;
    wd.join();
    std::printf("DONE rc=%d monitor_hits=%d\n", rc, g_monitor_hits.load());
    std::fflush(stdout);
    return 0;
}
