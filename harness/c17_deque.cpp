// C17 (lock-free deque) harness: the REAL pika::concurrency::detail::deque<std::uint64_t>.
//   c17_deque lock <seed> <first> <count>     LOCKSTEP: generated programs on real threads, the
//        controller picks the interleaving of the atomic steps (hook sites 1711..1719); prints the
//        input + executed schedule (IN DQ, what the model replays) and what the implementation
//        did (OUT DQ: per step (kind.function.node) with nodes numbered by first appearance, per
//        thread return values, drained contents)
//   c17_deque witness                         the (former) F15 schedule (one thread stalled before its
//        link CAS in stabilize_right), same output format
//   c17_deque witness2                        the same with the target link re-written by a push's
//        private store (second half of the F15 repair)
//   c17_deque witness3 / witness4             the mirror images of witness / witness2 (stabilize_left)
//   c17_deque seq <seed> <first> <count>      one thread, long random operation sequences (DIFF)
// Every case derives its randomness from (seed, case id) so a run can be resumed after a case
// that crashed or hung the real code (the driver restarts at the next id).
#include "common/ctl.hpp"

#include <pika/concurrency/deque.hpp>

#include <csignal>
#include <cstring>
#include <map>
#include <sstream>
#include <string>
#include <thread>
#include <unistd.h>

using DQ = pika::concurrency::detail::deque<std::uint64_t>;

struct Op
{
    char kind;    // 'l' push_left v, 'r' push_right v, 'L' pop_left, 'R' pop_right
    std::uint64_t v;
};
using Prog = std::vector<Op>;

static std::string prog_str(Prog const& p)
{
    if (p.empty()) return "-";
    std::ostringstream o;
    for (size_t i = 0; i < p.size(); ++i)
    {
        o << (i ? "," : "") << p[i].kind;
        if (p[i].kind == 'l' || p[i].kind == 'r') o << p[i].v;
    }
    return o.str();
}

static std::string do_op(DQ& d, Op const& op)
{
    std::uint64_t v = 0;
    switch (op.kind)
    {
    case 'l': return d.push_left(op.v) ? "t" : "f";
    case 'r': return d.push_right(op.v) ? "t" : "f";
    case 'L': return d.pop_left(v) ? std::to_string(v) : "n";
    default: return d.pop_right(v) ? std::to_string(v) : "n";
    }
}

// state that the signal handlers print (the partial case, so that the driver can replay it)
static char g_prefix[4096];
static int g_sched[8192];
static volatile int g_nsched = 0;
static volatile int g_phase = 0;    // 0 generating, 1 init ops, 2 lock-step, 3 drain
static volatile long g_case = -1;

static void die_handler(int sig)
{
    static char buf[65536];
    int n = std::snprintf(buf, sizeof buf, "\n%s ", g_prefix);
    if (g_nsched == 0) n += std::snprintf(buf + n, sizeof buf - n, "-");
    for (int i = 0; i < g_nsched && n < (int) sizeof buf - 64; ++i)
        n += std::snprintf(buf + n, sizeof buf - n, "%s%d", i ? "," : "", g_sched[i]);
    n += std::snprintf(buf + n, sizeof buf - n, "\nDIED case=%ld phase=%d signal=%s\n", g_case, g_phase,
        sig == SIGALRM ? "HANG" : "CRASH");
    ssize_t r = write(1, buf, n);
    (void) r;
    _exit(sig == SIGALRM ? 4 : 5);
}

struct Case
{
    int k = 0;
    Prog init;
    std::vector<Prog> progs;
    int policy = 0;    // 0 uniform, 1 sticky, 2 stall a victim
    int victim = 0;
    int stall_kind = 7, stall_nth = 0, stall_len = 40;
    bool victim_first = false;    // nobody else runs before the victim reaches its stall point
};

static Op rnd_op(vctl::Rng& rng, int pushbias, std::uint64_t& nextv)
{
    Op o;
    bool push = rng.below(100) < (unsigned) pushbias;
    bool left = rng.chance(1, 2);
    o.kind = push ? (left ? 'l' : 'r') : (left ? 'L' : 'R');
    o.v = push ? nextv++ : 0;
    return o;
}

static Case gen_case(vctl::Rng& rng)
{
    Case c;
    c.k = (int) rng.below(4);
    int T = 1 + (int) rng.below(4);
    std::uint64_t iv = 900;
    if (rng.chance(1, 6))
    {
        // the neighbourhood of the F15 pattern (and its mirror image): some contents and a stale
        // outward link, one pusher that will be stalled, one thread that pops >= 2 nodes and pushes
        // them back through the freelist, plus noise
        bool mir = rng.chance(1, 2);
        char pr = mir ? 'l' : 'r', pl = mir ? 'r' : 'l', qr = mir ? 'L' : 'R', ql = mir ? 'R' : 'L';
        int n0 = 1 + (int) rng.below(3);
        for (int i = 0; i < n0; ++i) c.init.push_back({pr, iv++});
        if (rng.chance(3, 4))
        {
            c.init.push_back({pr, iv++});
            c.init.push_back({qr, 0});
        }
        if (rng.chance(1, 2)) c.init.push_back({pl, iv++});
        T = 2 + (int) rng.below(2);
        c.progs.resize(T);
        c.progs[0].push_back({pr, 1});
        if (rng.chance(1, 3)) c.progs[0].push_back({rng.chance(1, 2) ? qr : ql, 0});
        std::uint64_t v = 101;
        int np = 2 + (int) rng.below(2);
        for (int i = 0; i < np; ++i) c.progs[1].push_back({rng.chance(2, 3) ? qr : ql, 0});
        if (rng.chance(1, 2)) c.progs[1].insert(c.progs[1].begin() + 1, {ql, 0});
        int nq = 1 + (int) rng.below(2);
        for (int i = 0; i < nq && c.progs[1].size() < 5; ++i) c.progs[1].push_back({pr, v++});
        for (int t = 2; t < T; ++t)
        {
            std::uint64_t w = 100 * t + 1;
            int n = 1 + (int) rng.below(3);
            for (int i = 0; i < n; ++i) c.progs[t].push_back(rnd_op(rng, 50, w));
        }
        c.policy = 2;
        c.victim = 0;
        c.stall_kind = rng.chance(3, 4) ? 7 : (rng.chance(1, 2) ? 4 : 8);
        c.stall_nth = 0;
        c.stall_len = 30 + (int) rng.below(60);
        c.victim_first = rng.chance(2, 3);
        return c;
    }
    int ni = (int) rng.below(6);
    for (int i = 0; i < ni; ++i) c.init.push_back(rnd_op(rng, 70, iv));
    c.progs.resize(T);
    for (int t = 0; t < T; ++t)
    {
        std::uint64_t v = 100 * t + 1;
        int n = 1 + (int) rng.below(5);
        static int const biases[5] = {20, 50, 80, 100, 0};
        int bias = biases[rng.below(5)];
        for (int i = 0; i < n; ++i) c.progs[t].push_back(rnd_op(rng, bias, v));
    }
    c.policy = (int) rng.below(3);
    c.victim = (int) rng.below(T);
    static int const kinds[8] = {7, 7, 4, 8, 5, 6, 9, 2};
    c.stall_kind = kinds[rng.below(8)];
    c.stall_nth = (int) rng.below(2);
    c.stall_len = 10 + (int) rng.below(70);
    return c;
}

static Case witness_case()
{
    Case c;
    c.k = 4;
    c.init = {{'r', 100}, {'r', 1}, {'r', 2}, {'R', 0}, {'l', 3}};
    c.progs = {{{'r', 4}}, {{'R', 0}, {'L', 0}, {'R', 0}, {'r', 5}, {'r', 6}}};
    c.policy = 2;
    c.victim = 0;
    c.stall_kind = 7;
    c.stall_nth = 0;
    c.stall_len = 1000000;    // until everybody else is done
    c.victim_first = true;
    return c;
}

// the second half of F15: the target link R0.right is written by the PRIVATE STORE of push_left both
// in its first and in its second incarnation (R0 is pushed on the left of Z, later everything to its
// right is popped and X is pushed on its right: stabilize_right CASes (Z,t) -> (X,t+1)); if either
// alloc_node or the private store restarts the tag, the second incarnation re-creates A's expected
// value (X,t+1)
static Case witness2_case()
{
    Case c = witness_case();
    c.init = {{'r', 100}, {'l', 1}, {'l', 50}, {'R', 0}, {'l', 51}, {'r', 2}, {'R', 0}, {'l', 3}};
    c.progs = {{{'r', 4}},
        {{'R', 0}, {'L', 0}, {'R', 0}, {'l', 5}, {'l', 6}, {'R', 0}, {'R', 0}, {'L', 0}, {'r', 7}}};
    return c;
}

// mirror image: left and right exchanged (stabilize_left, the left link = word 0 of the chunk)
// (the harness drains from the left, which does not traverse left links: the victim therefore pops
// `extra` times from the right after its push, so that a corrupted left link shows in its results)
static Case mirror_case(Case c, int extra)
{
    auto flip = [](Prog& p) {
        for (auto& o : p)
            o.kind = o.kind == 'l' ? 'r' : o.kind == 'r' ? 'l' : o.kind == 'L' ? 'R' : 'L';
    };
    flip(c.init);
    for (auto& p : c.progs) flip(p);
    for (int i = 0; i < extra; ++i) c.progs[0].push_back({'R', 0});
    return c;
}

static void run_lock_case(std::string const& id, Case const& c, vctl::Rng& rng)
{
    int T = (int) c.progs.size();
    {
        std::ostringstream in;
        in << "IN DQ " << id << " " << c.k << " " << T << " " << prog_str(c.init);
        for (auto& p : c.progs) in << " " << prog_str(p);
        std::snprintf(g_prefix, sizeof g_prefix, "%s", in.str().c_str());
    }
    g_nsched = 0;
    g_phase = 1;
    alarm(20);
    DQ* dq = new DQ((std::size_t) c.k);    // never destroyed: a corrupted structure must not take the harness down
    std::size_t npush = 0;
    std::vector<std::string> initres;
    for (auto& o : c.init)
    {
        initres.push_back(do_op(*dq, o));
        if (o.kind == 'l' || o.kind == 'r') ++npush;
    }
    for (auto& p : c.progs)
        for (auto& o : p)
            if (o.kind == 'l' || o.kind == 'r') ++npush;
    g_phase = 2;
    std::vector<std::vector<std::string>> got(T);
    std::vector<std::string> obs;
    std::map<std::uint64_t, int> canon;
    {
        vctl::Controller ctl(T, 1711, 1719);
        std::vector<std::thread> th;
        for (int t = 0; t < T; ++t)
            th.emplace_back([&, t] {
                ctl.begin(t);
                for (auto& o : c.progs[t]) got[t].push_back(do_op(*dq, o));
                ctl.end();
            });
        if (!ctl.quiesce(30000)) { std::printf("HARNESS-ERROR quiesce-start case=%s\n", id.c_str()); std::fflush(stdout); _exit(3); }
        ctl.release_all_parked();
        int seen = 0, stalled_for = -1;    // stalled_for >= 0: victim is being held back
        for (;;)
        {
            if (!ctl.quiesce(30000)) { std::printf("HARNESS-ERROR quiesce case=%s\n", id.c_str()); std::fflush(stdout); _exit(3); }
            auto p = ctl.parked();
            if (p.empty()) break;
            if (g_nsched >= 4000)
            {
                // the real code does not terminate under this schedule
                g_phase = 2;
                die_handler(SIGALRM);
            }
            std::vector<int> cand = p;
            if (c.policy == 2)
            {
                bool vparked = false;
                for (int x : p) vparked |= (x == c.victim);
                if (vparked && stalled_for < 0 && ctl.site_of(c.victim) - 1710 == c.stall_kind)
                {
                    if (seen++ == c.stall_nth) stalled_for = 0;
                }
                if (stalled_for >= 0 && stalled_for < c.stall_len && p.size() > 1)
                {
                    cand.clear();
                    for (int x : p)
                        if (x != c.victim) cand.push_back(x);
                    ++stalled_for;
                }
                else if (stalled_for >= 0 && (stalled_for >= c.stall_len || p.size() == 1))
                    stalled_for = c.stall_len;    // released for good
                else if (stalled_for < 0 && c.victim_first && vparked)
                    cand.assign(1, c.victim);
            }
            int t = cand[rng.below(cand.size())];
            if (c.policy >= 1 && g_nsched > 0 && rng.chance(2, 3))
                for (int x : cand)
                    if (x == g_sched[g_nsched - 1]) t = x;
            g_sched[g_nsched] = t;
            g_nsched = g_nsched + 1;
            std::uint64_t a = ctl.a_of(t);
            int ca = 0;
            int kind = ctl.site_of(t) - 1710;
            if (kind == 4 || kind == 8)
                ca = (int) a;    // the tag of the anchor snapshot the thread holds
            else if (a != 0)
            {
                auto it = canon.find(a);
                if (it == canon.end()) it = canon.emplace(a, (int) canon.size() + 1).first;
                ca = it->second;
            }
            std::uint64_t fn;
            {
                std::lock_guard l(ctl.m);
                fn = ctl.s[t].b;
            }
            obs.push_back(std::to_string(ctl.site_of(t) - 1710) + "." + std::to_string(fn) + "." + std::to_string(ca));
            ctl.release(t);
        }
        for (auto& x : th) x.join();
    }
    // the input and the executed schedule first: a crash/hang while draining can then be replayed
    {
        std::ostringstream in;
        in << g_prefix << " ";
        for (int i = 0; i < g_nsched; ++i) in << (i ? "," : "") << g_sched[i];
        if (g_nsched == 0) in << "-";
        std::printf("%s\n", in.str().c_str());
        std::fflush(stdout);
    }
    g_phase = 3;
    std::ostringstream out;
    out << "OUT DQ " << id << " obs=";
    for (size_t i = 0; i < obs.size(); ++i) out << (i ? "," : "") << obs[i];
    if (obs.empty()) out << "-";
    out << " init=";
    for (size_t i = 0; i < initres.size(); ++i) out << (i ? "," : "") << initres[i];
    if (initres.empty()) out << "-";
    out << " res=";
    for (int t = 0; t < T; ++t)
    {
        out << (t ? "|" : "");
        for (size_t i = 0; i < got[t].size(); ++i) out << (i ? "," : "") << got[t][i];
    }
    out << " rest=";
    bool firstv = true;
    for (std::size_t i = 0; i < npush + 2; ++i)    // bounded: a broken deque must not hang the harness
    {
        std::uint64_t v;
        if (!dq->pop_left(v)) break;
        out << (firstv ? "" : ",") << v;
        firstv = false;
    }
    if (firstv) out << "-";
    std::printf("%s\n", out.str().c_str());
    std::fflush(stdout);
    g_phase = 0;
    alarm(0);
}

static void run_seq_case(std::string const& id, vctl::Rng& rng)
{
    int k = (int) rng.below(4);
    int n = 1 + (int) rng.below(rng.chance(1, 4) ? 400 : 40);
    static int const sbias[4] = {30, 50, 55, 70};
    int bias = sbias[rng.below(4)];
    Prog p;
    std::uint64_t v = 1;
    for (int i = 0; i < n; ++i) p.push_back(rnd_op(rng, bias, v));
    std::snprintf(g_prefix, sizeof g_prefix, "IN DS %s %d", id.c_str(), k);
    g_nsched = 0;
    g_phase = 1;
    alarm(20);
    std::printf("IN DS %s %d %s\n", id.c_str(), k, prog_str(p).c_str());
    std::fflush(stdout);
    DQ* dq = new DQ((std::size_t) k);
    std::ostringstream out;
    out << "OUT DS " << id << " res=";
    for (size_t i = 0; i < p.size(); ++i) out << (i ? "," : "") << do_op(*dq, p[i]);
    out << " rest=";
    bool firstv = true;
    for (std::uint64_t i = 0; i < v + 2; ++i)
    {
        std::uint64_t x;
        if (!dq->pop_left(x)) break;
        out << (firstv ? "" : ",") << x;
        firstv = false;
    }
    if (firstv) out << "-";
    std::printf("%s\n", out.str().c_str());
    std::fflush(stdout);
    delete dq;    // sequential use: the destructor must work
    g_phase = 0;
    alarm(0);
}

int main(int argc, char** argv)
{
    std::string mode = argc > 1 ? argv[1] : "lock";
    std::uint64_t seed = argc > 2 ? std::strtoull(argv[2], nullptr, 10) : 1;
    long first = argc > 3 ? std::atol(argv[3]) : 0;
    long count = argc > 4 ? std::atol(argv[4]) : 100;
    std::signal(SIGSEGV, die_handler);
    std::signal(SIGBUS, die_handler);
    std::signal(SIGABRT, die_handler);
    std::signal(SIGFPE, die_handler);
    std::signal(SIGALRM, die_handler);
    if (mode == "witness" || mode == "witness2" || mode == "witness3" || mode == "witness4")
    {
        vctl::Rng rng(1);
        g_case = 0;
        if (mode == "witness")
            run_lock_case("w", witness_case(), rng);
        else if (mode == "witness2")
            run_lock_case("w2", witness2_case(), rng);
        else if (mode == "witness3")
            run_lock_case("w3", mirror_case(witness_case(), 3), rng);
        else
            run_lock_case("w4", mirror_case(witness2_case(), 2), rng);
        return 0;
    }
    for (long cs = first; cs < first + count; ++cs)
    {
        g_case = cs;
        vctl::Rng rng(seed * 1000003ull + (std::uint64_t) cs * 7919ull + (mode == "seq" ? 17 : 0));
        std::string id = std::to_string(cs);
        if (mode == "seq")
            run_seq_case(id, rng);
        else
        {
            Case c = gen_case(rng);
            run_lock_case(id, c, rng);
        }
    }
    return 0;
}
