// C17 "recycle" twin: the lock-free deque and its three scheduler back-ends with a HOT node free list.
//
// The other free-running twins of the deque (c17_stress dq / mx) never let a node be freed and allocated again
// inside a trial; lock-step interleaves only at the hooks before each modelled atomic step.  Neither reaches
// code changes inside the node pool itself (caching_freelist / boost freelist_stack: allocate and deallocate
// are CAS loops on the pool head), e.g. a deallocate that became plain load + store: that needs >= 2 OS
// threads on ONE deque, pops (deallocate) overlapping pushes (allocate) or other pops, and later pushes that
// receive the doubly listed / dropped node.  This harness keeps the deque short (bursts of 1..4 pushes at drawn
// ends followed by as many pops at drawn ends, per thread) so that every push re-uses a node that was freed
// microseconds ago by some thread.
//
//   c17_recycle <seed> <nthreads 2..8> <values_per_thread> [backend ...]
//     back-ends: lifo (lockfree_lifo_backend: push left/right, pop left), abpfifo (lockfree_abp_fifo_backend:
//     push left, owner pops right, thief pops left), abplifo (lockfree_abp_lifo_backend: push left/right, owner
//     pops left, thief pops right), deque (pika::concurrency::detail::deque directly, all four operations).
//     Default: all four.  One forked child per back-end; thread t pushes the values 1 + t*per + i exactly once.
//
// Monitors (model-independent, hold for every interleaving of correct code, no timing assumption):
//   duplicate  a value was returned by two pops                      (checked at every pop: atomic seen[] flags)
//   invented   a pop returned 0 or a value above the range pushed
//   lost       after all threads are done and the main thread drained the container, a value was never returned
//              (also: push reported failure, container not empty after a bounded drain)
//   crash      the child died from a signal (SIGSEGV / SIGBUS / SIGABRT ...)
//   hang       no thread completed a push/pop round for 30 s (progress counter in shared memory; a loaded machine
//              slows the rounds down to milliseconds, never to 30 s) -> the parent kills the child
//
// Output, one line per back-end:   OUT RC <backend> ok pushed=<n> popped=<n> drained=<n> ms=<n>
//                                  BAD RC <backend> sig=<duplicate|lost|invented|crash|hang> <detail>
#include "common/ctl.hpp"    // vctl::Rng only

#include <pika/concurrency/deque.hpp>
#include <pika/schedulers/lockfree_queue_backends.hpp>

#include <atomic>
#include <chrono>
#include <csignal>
#include <cstdint>
#include <cstdio>
#include <cstdlib>
#include <cstring>
#include <memory>
#include <string>
#include <sys/mman.h>
#include <sys/wait.h>
#include <thread>
#include <unistd.h>
#include <vector>

using value_t = std::uint64_t;

struct Shm
{
    std::atomic<std::uint64_t> progress;
};
static Shm* g_shm = nullptr;
static char const* g_backend = "?";
static std::atomic_flag g_reported = ATOMIC_FLAG_INIT;

// async-signal-safe; reports once even when several threads fail together, never returns
[[noreturn]] static void bad(char const* sig, char const* msg, unsigned long long v, bool with_value)
{
    if (g_reported.test_and_set())
        for (;;) pause();
    char buf[256];
    int n = with_value ? std::snprintf(buf, sizeof buf, "BAD RC %s sig=%s %s (value %llu)\n", g_backend, sig, msg, v) :
                         std::snprintf(buf, sizeof buf, "BAD RC %s sig=%s %s\n", g_backend, sig, msg);
    (void) !write(1, buf, std::size_t(n));
    _exit(9);
}

// uniform view of the four containers: push(v, right), pop(v, alt)
struct LifoQ
{
    pika::threads::detail::lockfree_lifo_backend<value_t> q{16};
    bool push(value_t v, bool right) { return q.push(v, right); }
    bool pop(value_t& v, bool) { return q.pop(v); }
    bool empty() { return q.empty(); }
};
struct AbpFifoQ
{
    pika::threads::detail::lockfree_abp_fifo_backend<value_t> q{16};
    bool push(value_t v, bool) { return q.push(v); }
    bool pop(value_t& v, bool steal) { return q.pop(v, steal); }
    bool empty() { return q.empty(); }
};
struct AbpLifoQ
{
    pika::threads::detail::lockfree_abp_lifo_backend<value_t> q{16};
    bool push(value_t v, bool right) { return q.push(v, right); }
    bool pop(value_t& v, bool steal) { return q.pop(v, steal); }
    bool empty() { return q.empty(); }
};
struct RawQ
{
    pika::concurrency::detail::deque<value_t> q{16};
    bool push(value_t v, bool right) { return right ? q.push_right(v) : q.push_left(v); }
    bool pop(value_t& v, bool right) { return right ? q.pop_right(v) : q.pop_left(v); }
    bool empty() { return q.empty(); }
};

template <class Q>
static void child(std::uint64_t seed, unsigned nth, std::uint64_t per)
{
    auto t0 = std::chrono::steady_clock::now();
    std::uint64_t const total = nth * per;
    std::unique_ptr<std::atomic<std::uint8_t>[]> seen(new std::atomic<std::uint8_t>[total + 1]);
    for (std::uint64_t i = 0; i <= total; ++i) seen[i].store(0, std::memory_order_relaxed);
    std::atomic<std::uint64_t> popped{0};
    auto account = [&](value_t v) {
        if (v == 0 || v > total) bad("invented", "a pop returned a value that was never pushed", v, true);
        if (seen[v].fetch_add(1, std::memory_order_relaxed) != 0) bad("duplicate", "the same element was returned by two pops", v, true);
    };

    auto q = std::make_unique<Q>();
    std::atomic<unsigned> ready{0};
    std::vector<std::thread> ts;
    for (unsigned t = 0; t < nth; ++t)
        ts.emplace_back([&, t] {
            vctl::Rng rng(seed * 1000003ull + 7919ull * t + 1);
            std::uint64_t mine = 0;
            ++ready;
            while (ready.load() < nth) {}
            std::uint64_t next = 0;
            while (next < per)
            {
                std::uint64_t x = rng.next();
                // mostly short bursts (deque nearly empty: the node freed last is the node allocated next), now and
                // then a longer one so that pops also meet interior nodes
                unsigned const burst = ((x >> 40) & 63) == 0 ? 5 + unsigned((x >> 46) & 7) : 1 + unsigned(x & 3);
                for (unsigned b = 0; b < burst && next < per; ++b, ++next)
                    if (!q->push(value_t(1 + t * per + next), ((x >> (8 + b)) & 1) != 0))
                        bad("lost", "push reported failure", 1 + t * per + next, true);
                for (unsigned b = 0; b < burst; ++b)
                {
                    value_t v = 0;
                    if (q->pop(v, ((x >> (24 + b)) & 1) != 0))
                    {
                        account(v);
                        ++mine;
                    }
                }
                g_shm->progress.fetch_add(1, std::memory_order_relaxed);
            }
            popped.fetch_add(mine);
        });
    for (auto& th : ts) th.join();

    std::uint64_t drained = 0;
    {
        value_t v = 0;
        bool alt = false;
        while (drained <= total + 16 && q->pop(v, alt))
        {
            account(v);
            ++drained;
            alt = !alt;
            if ((drained & 1023) == 0) g_shm->progress.fetch_add(1, std::memory_order_relaxed);
        }
        // pop(v, alt) may be restricted to one end: try the other flag once more
        while (drained <= total + 16 && (q->pop(v, false) || q->pop(v, true)))
        {
            account(v);
            ++drained;
        }
    }
    if (!q->empty()) bad("lost", "container not empty after the drain", 0, false);
    std::uint64_t missing = 0, first = 0;
    for (std::uint64_t i = 1; i <= total; ++i)
        if (seen[i].load(std::memory_order_relaxed) == 0)
        {
            if (!missing) first = i;
            ++missing;
        }
    if (missing)
    {
        char m[160];
        std::snprintf(m, sizeof m, "%llu of %llu pushed values were never returned (popped=%llu drained=%llu), first", (unsigned long long) missing,
            (unsigned long long) total, (unsigned long long) popped.load(), (unsigned long long) drained);
        bad("lost", m, first, true);
    }
    long ms = (long) std::chrono::duration_cast<std::chrono::milliseconds>(std::chrono::steady_clock::now() - t0).count();
    std::printf("OUT RC %s ok pushed=%llu popped=%llu drained=%llu ms=%ld\n", g_backend, (unsigned long long) total,
        (unsigned long long) popped.load(), (unsigned long long) drained, ms);
    std::fflush(stdout);
    q.reset();    // the destructor drains and frees the pool: part of the code under test
    _exit(0);
}

int main(int argc, char** argv)
{
    std::uint64_t seed = argc > 1 ? std::strtoull(argv[1], nullptr, 10) : 1;
    unsigned nth = argc > 2 ? unsigned(std::atoi(argv[2])) : 6;
    std::uint64_t per = argc > 3 ? std::strtoull(argv[3], nullptr, 10) : 150000;
    if (nth < 2) nth = 2;
    if (nth > 8) nth = 8;
    std::vector<std::string> backends;
    for (int a = 4; a < argc; ++a) backends.push_back(argv[a]);
    if (backends.empty()) backends = {"abplifo", "lifo", "abpfifo", "deque"};
    g_shm = (Shm*) mmap(nullptr, sizeof(Shm), PROT_READ | PROT_WRITE, MAP_SHARED | MAP_ANONYMOUS, -1, 0);
    long const hang_ms = 30000;
    for (auto const& b : backends)
    {
        g_backend = b.c_str();
        g_shm->progress.store(0);
        std::fflush(stdout);
        pid_t pid = fork();
        if (pid == 0)
        {
            if (!std::getenv("STRESS_KEEP_STDERR")) { (void) !freopen("/dev/null", "w", stderr); }
            if (b == "lifo") child<LifoQ>(seed, nth, per);
            else if (b == "abpfifo") child<AbpFifoQ>(seed, nth, per);
            else if (b == "abplifo") child<AbpLifoQ>(seed, nth, per);
            else if (b == "deque") child<RawQ>(seed, nth, per);
            _exit(3);
        }
        std::uint64_t last = ~0ull;
        long since = 0;
        int stt = 0;
        bool hung = false;
        for (;;)
        {
            pid_t w = waitpid(pid, &stt, WNOHANG);
            if (w == pid) break;
            usleep(20000);
            std::uint64_t p = g_shm->progress.load();
            if (p != last)
            {
                last = p;
                since = 0;
            }
            else if ((since += 20) >= hang_ms)
            {
                hung = true;
                kill(pid, SIGKILL);
                waitpid(pid, &stt, 0);
                break;
            }
        }
        if (hung)
            std::printf("BAD RC %s sig=hang no thread completed a push/pop round for %ld ms (after %llu rounds): a pop or push never returns\n",
                g_backend, hang_ms, (unsigned long long) last);
        else if (WIFSIGNALED(stt))
            std::printf("BAD RC %s sig=crash the process using the container died from signal %d (after %llu rounds)\n", g_backend, WTERMSIG(stt),
                (unsigned long long) g_shm->progress.load());
        else if (WIFEXITED(stt) && WEXITSTATUS(stt) != 0 && WEXITSTATUS(stt) != 9)
            std::printf("BAD RC %s sig=crash the process using the container exited with status %d\n", g_backend, WEXITSTATUS(stt));
        std::fflush(stdout);
    }
    std::printf("DONE RC\n");
    return 0;
}
