// harness/c01_yieldto.cpp — C01: replay of the model witness C01_sched_single_runner_yield_to_refuted on the REAL
// runtime (static scheduler: no stealing, hints are honoured; 4 workers).
//
//   worker 3 is kept busy by a spinner S; task T is created pending with hint 3 (it sits in worker 3's queue);
//   task Y (worker 1) calls this_thread::yield_to(T): worker 1 takes T as next_thrd and runs it, T's queue entry
//   stays behind in worker 3's queue (the duplicate handle);
//   T yields with pending_boost (what yield_k(k >= 16) does); worker 1 stores (pending_boost) and is parked by
//   hook 112 right before thread_data::set_state(pending) (blind load / CAS loop);
//   a plain OS thread calls set_thread_state(T, pending): pending_boost -> pending, no enqueue;
//   the spinner is released: worker 3 pops the stale entry, wins the tagged CAS and runs T (T spins in its body);
//   worker 1 is released: set_state(pending) overwrites (active), T is pushed, a worker pops it, wins the CAS and
//   is about to resume the coroutine worker 3 is executing: hook 110 sees the thread object occupied.
//
// Output: one line  `YT <trial> double_run occupied_by=<w> second=<w>`  |  `YT <trial> no_double_run <why>`;
// the second resume is never executed (the process leaves from the hook), so there is no crash to interpret.
#include <pika/config.hpp>
#include <pika/execution.hpp>
#include <pika/init.hpp>
#include <pika/thread.hpp>
#include <pika/threading_base/register_thread.hpp>
#include <pika/threading_base/set_thread_state.hpp>
#include <pika/threading_base/thread_helpers.hpp>

#include <atomic>
#include <chrono>
#include <cstdio>
#include <cstdlib>
#include <string>
#include <thread>
#include <unistd.h>

namespace ex = pika::execution;
using namespace pika::threads::detail;

static std::atomic<void const*> g_T{nullptr};         // thread_data of T
static std::atomic<int> g_in{0};                      // workers inside T's coroutine
static std::atomic<int> g_occ{-1};                    // which worker
static std::atomic<int> g_parked{0}, g_release{0};    // worker A at 112
static std::atomic<int> g_spin_run{0}, g_spin_stop{0};
static std::atomic<int> g_t_phase{0}, g_t_finish{0};
static std::atomic<int> g_trial{0};
static std::atomic<int> g_second_cas{0};

static bool wait_for(std::atomic<int>& a, int v, double secs)
{
    auto t0 = std::chrono::steady_clock::now();
    while (a.load() < v)
    {
        if (std::chrono::duration<double>(std::chrono::steady_clock::now() - t0).count() > secs) return false;
        std::this_thread::yield();
    }
    return true;
}

static void hookfn(int site, void const* obj, std::uint64_t a, std::uint64_t)
{
    void const* T = g_T.load(std::memory_order_acquire);
    if (T == nullptr || obj != T) return;
    if (site == 112)
    {
        // worker A: (pending_boost) stored, set_state(pending) not yet called
        if (g_parked.exchange(1) == 0)
        {
            auto t0 = std::chrono::steady_clock::now();
            while (!g_release.load())
            {
                if (std::chrono::duration<double>(std::chrono::steady_clock::now() - t0).count() > 10.0) break;
                std::this_thread::yield();
            }
        }
    }
    else if (site == 110)
    {
        int n = g_in.fetch_add(1);
        if (n != 0)
        {
            // a second worker won the pending -> active CAS while the coroutine is being executed
            std::printf("YT %d double_run occupied_by=%d second=%d\n", g_trial.load(), g_occ.load(), (int) a);
            std::fflush(stdout);
            _exit(3);
        }
        g_occ.store((int) a);
    }
    else if (site == 111)
    {
        g_in.fetch_sub(1);
    }
}

int main(int argc, char** argv)
{
    int trial = argc > 1 ? std::atoi(argv[1]) : 0;
    g_trial = trial;
    std::string a1 = "--pika:threads=4", a2 = "--pika:scheduler=static";
    char* av[] = {argv[0], a1.data(), a2.data(), nullptr};
    pika::verif::hook.store(&hookfn, std::memory_order_release);
    alarm(30);
    pika::start(3, av);
    auto* pool = &pika::resource::get_thread_pool("default");

    // S: keeps worker 3 busy
    {
        thread_init_data d(make_thread_function_nullary([] {
            g_spin_run = 1;
            while (!g_spin_stop.load()) {}
        }),
            "yt-spinner", ex::thread_priority::normal, ex::thread_schedule_hint(3), ex::thread_stacksize::small_);
        register_work(d, pool);
    }
    if (!wait_for(g_spin_run, 1, 5.0))
    {
        std::printf("YT %d no_double_run spinner_not_started\n", trial);
        _exit(0);
    }
    // T: pending in worker 3's queue
    thread_id_ref_type tid;
    {
        thread_init_data d(make_thread_function_nullary([] {
            g_t_phase = 1;
            // yield with pending_boost (spinlock / yield_while back-off: yield_k(k >= 16))
            pika::this_thread::suspend(thread_schedule_state::pending_boost, "yt-boost");
            g_t_phase = 2;
            auto t0 = std::chrono::steady_clock::now();
            while (!g_t_finish.load())
            {
                if (std::chrono::duration<double>(std::chrono::steady_clock::now() - t0).count() > 8.0) break;
            }
            g_t_phase = 3;
        }),
            "yt-target", ex::thread_priority::normal, ex::thread_schedule_hint(3), ex::thread_stacksize::small_);
        tid = register_thread(d, pool);
    }
    g_T.store(get_thread_id_data(tid), std::memory_order_release);
    // Y on worker 1: yield_to(T)
    {
        thread_id_type t = tid.noref();
        thread_init_data d(make_thread_function_nullary([t] {
            pika::this_thread::yield_to(pika::thread::id(t));
        }),
            "yt-yielder", ex::thread_priority::normal, ex::thread_schedule_hint(1), ex::thread_stacksize::small_);
        register_work(d, pool);
    }
    if (!wait_for(g_parked, 1, 5.0))
    {
        std::printf("YT %d no_double_run worker_not_parked_at_112 t_phase=%d\n", trial, g_t_phase.load());
        std::fflush(stdout);
        _exit(0);
    }
    // the resume in the window: pending_boost -> pending, no enqueue
    thread_state prev = set_thread_state(tid.noref(), thread_schedule_state::pending, thread_restart_state::signaled,
        ex::thread_priority::normal, ex::thread_schedule_hint(), false);
    // worker 3 becomes free and finds the stale queue entry of T
    g_spin_stop = 1;
    bool resumed = wait_for(g_t_phase, 2, 5.0);
    int occ = g_occ.load();
    // worker A continues: set_state(pending) + schedule_thread
    g_release = 1;
    // if the defect is there, hook 110 ends the process within milliseconds
    std::this_thread::sleep_for(std::chrono::milliseconds(1500));
    std::printf("YT %d no_double_run prev=%d stale_entry_resumed=%d on=%d t_phase=%d\n", trial, (int) prev.state(), (int) resumed, occ,
        g_t_phase.load());
    std::fflush(stdout);
    g_t_finish = 1;
    _exit(0);
}
