// C08 REPLAY harness: ONE given case of the lock-step harness (same IN/OUT line format as
// c08_lockstep.cpp) executed on the real pika::counting_semaphore<> / pika::sliding_semaphore with a
// GIVEN schedule.  Used to replay Coq witnesses on the real code, e.g. the mixed-count observation
// (C08_no_blocked_with_permits_mixed_counts_refuted):
//     c08_replay C 0 0 0 "A2;A1;R1" 0,0,1,1,2,2,0,0
// -> OUT LS 0 sites=1,2,1,2,1,5,3,2 res=||1 blocked=0,1 final=1
#include "common/ctl.hpp"

#include <pika/synchronization/counting_semaphore.hpp>
#include <pika/synchronization/sliding_semaphore.hpp>

#include <atomic>
#include <chrono>
#include <sstream>
#include <string>
#include <thread>
#include <vector>

struct Sem : pika::counting_semaphore<>
{
    using pika::counting_semaphore<>::counting_semaphore;
    void acquire_n(std::ptrdiff_t n)
    {
        PIKA_VERIF_POINT(808, this);
        std::unique_lock<mutex_type> l(mtx_);
        sem_.wait(l, n);
    }
    bool try_wait_n(std::ptrdiff_t n)
    {
        PIKA_VERIF_POINT(808, this);
        std::unique_lock<mutex_type> l(mtx_);
        return sem_.try_wait(l, n);
    }
};

struct Op
{
    char k;    // as in c08_lockstep.cpp; Z0 = sl.signal_all(), M<md>:<lo> = sl.set_max_difference(md, lo)
    int n;
    int lo = 0;
};

static int abs_site(int site)
{
    switch (site)
    {
    case 9001: return 2;
    case 806: return 3;
    case 805:
    case 815: return 5;
    default: return 1;
    }
}

static std::vector<std::string> split(std::string const& s, char c)
{
    std::vector<std::string> r;
    std::string cur;
    for (char x : s)
    {
        if (x == c) { r.push_back(cur); cur.clear(); }
        else cur.push_back(x);
    }
    r.push_back(cur);
    return r;
}

int main(int argc, char** argv)
{
    if (argc < 7)
    {
        std::printf("usage: c08_replay C|S v0 lo0 md \"A2;A1;R1\" 0,0,1,1   (sliding: S5 T5 G3 Z0 M10:0)\n");
        return 2;
    }
    bool sliding = argv[1][0] == 'S';
    int v0 = std::atoi(argv[2]), lo0 = std::atoi(argv[3]), md = std::atoi(argv[4]);
    std::vector<std::vector<Op>> progs;
    for (auto& p : split(argv[5], ';'))
    {
        std::vector<Op> v;
        if (!p.empty() && p != "-")
            for (auto& o : split(p, ','))
            {
                Op x{o[0], std::atoi(o.c_str() + 1)};
                auto c = o.find(':');
                if (c != std::string::npos) x.lo = std::atoi(o.c_str() + c + 1);
                v.push_back(x);
            }
        progs.push_back(v);
    }
    std::vector<int> want;
    if (std::string(argv[6]) != "-")
        for (auto& x : split(argv[6], ',')) want.push_back(std::atoi(x.c_str()));
    int T = (int) progs.size();
    // watchdog for the controlling thread itself
    std::atomic<bool> finished{false};
    std::thread([&finished] {
        for (int i = 0; i < 600 && !finished.load(); ++i) std::this_thread::sleep_for(std::chrono::milliseconds(50));
        if (!finished.load())
        {
            std::printf("HIT replay:hang the case did not finish within 30 s\n");
            std::fflush(stdout);
            std::_Exit(0);
        }
    }).detach();

    Sem sem(v0);
    pika::sliding_semaphore sl(md, lo0);
    std::atomic<bool> stop{false};
    std::atomic<int> cur_md{md};    // max_difference in force (last set_max_difference issued)
    std::vector<std::string> got(T);
    {
        vctl::Controller ctl(T, 801, 816);
        std::vector<std::thread> th;
        for (int t = 0; t < T; ++t)
            th.emplace_back([&, t] {
                ctl.begin(t);
                for (Op const& o : progs[t])
                {
                    if (stop.load()) break;
                    bool r = true, zres = false;
                    switch (o.k)
                    {
                    case 'A': if (o.n == 1) sem.acquire(); else sem.acquire_n(o.n); break;
                    case 'Y': r = sem.try_acquire(); break;
                    case 'W': r = sem.try_wait_n(o.n); break;
                    case 'R': sem.release(o.n); break;
                    case 'S': sl.wait(o.n); break;
                    case 'T': r = sl.try_wait(o.n); break;
                    case 'G': sl.signal(o.n); break;
                    case 'Z':
                    {
                        // the public wrapper has no hook (one-line function): harness-side site, as for 808 above
                        PIKA_VERIF_POINT(808, &sl);
                        std::int64_t v = sl.signal_all();
                        if (!stop.load()) got[t] += "[" + std::to_string(v) + "]";
                        zres = true;
                        break;
                    }
                    case 'M':
                        PIKA_VERIF_POINT(808, &sl);
                        cur_md.store(o.n);    // lock-step: nobody else runs until this thread parks, blocks or ends
                        sl.set_max_difference(o.n, o.lo);
                        break;
                    }
                    if (stop.load()) break;
                    if (!zres) got[t].push_back(r ? '1' : '0');
                }
                ctl.end();
            });
        bool bad = !ctl.quiesce(20000);
        ctl.release_all_parked();
        std::vector<int> sched, sites;
        for (size_t i = 0; i < want.size() && !bad; ++i)
        {
            if (!ctl.quiesce(20000)) { bad = true; break; }
            auto p = ctl.parked();
            int t = want[i];
            bool ok = false;
            for (int x : p)
                if (x == t) ok = true;
            if (!ok)
            {
                std::printf("HIT replay:not_schedulable step %zu: thread %d is not at a schedulable point of the real code\n", i, t);
                std::fflush(stdout);
                std::_Exit(0);
            }
            sched.push_back(t);
            sites.push_back(abs_site(ctl.site_of(t)));
            ctl.release(t);
        }
        if (!bad && !ctl.quiesce(20000)) bad = true;
        std::ostringstream in, out;
        in << "IN LS 0 " << (sliding ? "S" : "C") << " " << v0 << " " << lo0 << " " << md << " " << T;
        for (auto& p : progs)
        {
            in << " ";
            for (size_t i = 0; i < p.size(); ++i) {
                    in << (i ? "," : "") << p[i].k << p[i].n;
                    if (p[i].k == 'M') in << ":" << p[i].lo;
                }
            if (p.empty()) in << "-";
        }
        in << " ";
        for (size_t i = 0; i < sched.size(); ++i) in << (i ? "," : "") << sched[i];
        if (sched.empty()) in << "-";
        std::printf("%s\n", in.str().c_str());
        if (bad)
        {
            std::printf("HIT replay:hang the real code did not reach a quiescent state within 20 s\n");
            std::fflush(stdout);
            std::_Exit(0);
        }
        auto parked = ctl.parked();
        auto blocked = ctl.blocked();
        std::vector<std::string> snap = got;
        std::fflush(stdout);
        long fin = 0;
        if (!sliding)
        {
            // only meaningful when nobody is parked at a schedulable point (the schedule ran to a stuck state)
            for (int i = 0; i < 64 && sem.try_acquire(); ++i) ++fin;
        }
        else
        {
            fin = -100;
            for (int u = 40; u >= -10; --u)
                if (sl.try_wait(u)) { fin = u - cur_md.load(); break; }
        }
        out << "OUT LS 0 sites=";
        for (size_t i = 0; i < sites.size(); ++i) out << (i ? "," : "") << sites[i];
        if (sites.empty()) out << "-";
        out << " res=";
        for (int t = 0; t < T; ++t) out << (t ? "|" : "") << snap[t];
        out << " blocked=";
        for (size_t i = 0; i < blocked.size(); ++i) out << (i ? "," : "") << blocked[i];
        if (blocked.empty()) out << "-";
        out << " final=" << fin;
        std::printf("%s\nSTUCK %d\n", out.str().c_str(), parked.empty() ? 1 : 0);
        std::fflush(stdout);
        // clean-up
        stop = true;
        pika::verif::hook.store(nullptr, std::memory_order_release);
        ctl.release_all_parked();
        sem.release(1000);
        sl.signal(100000);
        auto t0 = std::chrono::steady_clock::now();
        for (;;)
        {
            bool all = true;
            {
                std::lock_guard l(ctl.m);
                for (auto& x : ctl.s)
                    if (x.st != vctl::DONE) all = false;
            }
            if (all) break;
            if (std::chrono::steady_clock::now() - t0 > std::chrono::seconds(10))
            {
                std::printf("HIT replay:cleanup_hang threads did not finish after release(1000)/signal(100000)\n");
                std::fflush(stdout);
                std::_Exit(0);
            }
            std::this_thread::sleep_for(std::chrono::microseconds(50));
        }
        for (auto& x : th) x.join();
    }
    finished = true;
    std::printf("DONE replay\n");
    return 0;
}
