// C17 free-running stress twins of harness/c17_iq.cpp and harness/c17_deque.cpp (see
// harness/common/stress_util.hpp for the why): real threads released from one spin barrier with swept offsets,
// no controller, no hook installed, model-independent monitors.
//
//   c17_stress iq <seed> <trials> <budget_ms>     contiguous_index_queue<std::uint32_t>
//     per trial a fresh queue reset to [first, first+len), len in 0..24; 2..6 threads each run a drawn program
//     of pop_left / pop_right calls (1..10) back to back; the main thread drains what is left with pop_left.
//     Monitors: duplicate (an index handed out twice), lost / foreign (popped + remaining != initial range as a
//     set), order (within one thread: after pop_left gave i every later pop gives > i; after pop_right gave j
//     every later pop gives < j), empty_with_items (a pop reported empty, but indices were left at the end —
//     nothing is ever pushed), empty_not_sticky (a thread got an index after it had seen empty).
//
//   c17_stress dq <seed> <trials> <budget_ms>     lock-free deque<std::uint64_t>
//     IMPORTANT: the unchanged tree has the known ABA defect F15 (KNOWN_FINDINGS C17:deque:aba_link_tag_reset):
//     alloc_node resets the link tags of a RECYCLED node.  It needs a node that was popped (freed) and allocated
//     again while another thread is stalled.  The twin therefore never lets a push follow a pop on the same
//     deque: every trial builds a fresh deque and runs phases that either only push (all nodes come fresh from
//     the pool / the allocator, nothing is freed) or only pop (nothing is allocated), so no node is ever reused
//     and F15 cannot fire.  Phases:
//       push  : 2..4 threads push distinct values at drawn ends concurrently; main drains sequentially
//       pop   : main fills sequentially (known sequence); 2..4 threads pop at drawn ends concurrently
//       pushpop: concurrent push phase, then (second barrier) concurrent pop phase
//     Monitors: duplicate / lost / foreign (multiset of popped + drained = multiset pushed), push_order (drained
//     sequence: a thread's later push_left lies left of, a later push_right right of, all its earlier pushes),
//     pop_order (known sequence: after a thread popped x from the left everything it pops later lies right of
//     x, mirrored for the right), empty_with_items, push_failed.
//
//   c17_stress mx <seed> <trials> <budget_ms>     lock-free deque, pushes racing pops, still without node reuse
//     (see namespace mx below: a hook function holds every free back until all nodes of the trial are allocated)
#include "common/stress_util.hpp"

#include <pika/concurrency/deque.hpp>
#include <pika/concurrency/detail/contiguous_index_queue.hpp>

#include <memory>
#include <optional>
#include <sstream>
#include <string>
#include <vector>

// ------------------------------------------------------------------------------------------------ index queue
namespace iq {
    using Q = pika::concurrency::detail::contiguous_index_queue<std::uint32_t>;
    struct Tr
    {
        Q q;
        std::uint32_t first = 0, len = 0;
        int nth = 0;
        int nops[6] = {0, 0, 0, 0, 0, 0};
        char ops[6][12];
        std::int64_t res[6][12];    // -1 = empty

        static void role_fn(void* p, int r)
        {
            Tr* t = static_cast<Tr*>(p);
            int const n = t->nops[r];
            for (int i = 0; i < n; ++i)
            {
                std::optional<std::uint32_t> v = t->ops[r][i] == 'L' ? t->q.pop_left() : t->q.pop_right();
                t->res[r][i] = v ? (std::int64_t) *v : -1;
            }
        }
        std::string describe(stw::Task const* tasks, std::vector<std::uint32_t> const& rest) const
        {
            std::ostringstream o;
            o << "range=[" << first << "," << first + len << ") threads=";
            for (int r = 0; r < nth; ++r)
            {
                o << (r ? ";" : "") << "@" << tasks[r].delay << ":";
                for (int i = 0; i < nops[r]; ++i) o << (i ? "," : "") << ops[r][i] << res[r][i];
            }
            o << " rest=";
            for (std::size_t i = 0; i < rest.size(); ++i) o << (i ? "," : "") << rest[i];
            if (rest.empty()) o << "-";
            return o.str();
        }
        void run(stw::Pool& P, std::uint64_t trial, vctl::Rng& rng)
        {
            nth = 2 + (int) rng.below(5);
            len = (std::uint32_t) rng.below(25);
            first = rng.chance(1, 8) ? 0xffffffffu - len - (std::uint32_t) rng.below(3) : (std::uint32_t) rng.below(1000);
            int style = (int) rng.below(4);    // 0 mixed, 1 all left, 2 all right, 3 thread-wise ends
            for (int r = 0; r < nth; ++r)
            {
                nops[r] = 1 + (int) rng.below(10);
                for (int i = 0; i < nops[r]; ++i)
                    ops[r][i] = style == 1 ? 'L' : style == 2 ? 'R' : style == 3 ? (r % 2 ? 'L' : 'R') : (rng.chance(1, 2) ? 'L' : 'R');
            }
            {
                char c[40];
                static char const* const SN[4] = {"mixed", "left", "right", "ends"};
                std::snprintf(c, sizeof c, "iq/%s/%s", SN[style], len == 0 ? "len0" : len <= 4 ? "len1-4" : "len5+");
                stw::set_class(c);
            }
            q.reset(first, first + len);
            stw::Task tasks[6];
            for (int r = 0; r < nth; ++r) tasks[r] = stw::Task{&role_fn, this, r, stw::sweep(rng, 8)};
            P.run(trial + 1, tasks, nth, (int) rng.below((std::uint64_t) nth));
            // drain
            std::vector<std::uint32_t> rest;
            for (int k = 0; k < 64; ++k)
            {
                auto v = q.pop_left();
                if (!v) break;
                rest.push_back(*v);
            }
            // ---- verdict
            std::string d = describe(tasks, rest);
            int seen[32];
            for (int i = 0; i < 32; ++i) seen[i] = 0;
            auto note = [&](std::int64_t v, char const* who) {
                std::int64_t off = v - (std::int64_t) first;
                if (off < 0 || off >= (std::int64_t) len) stw::bad("foreign", "index %lld (%s) is outside the initial range %s", (long long) v, who, d.c_str());
                if (++seen[off] > 1) stw::bad("duplicate", "index %lld was handed out twice %s", (long long) v, d.c_str());
            };
            bool any_empty = false;
            for (int r = 0; r < nth; ++r)
            {
                bool empty_seen = false;
                for (int i = 0; i < nops[r]; ++i)
                {
                    std::int64_t v = res[r][i];
                    if (v < 0)
                    {
                        empty_seen = any_empty = true;
                        continue;
                    }
                    if (empty_seen) stw::bad("empty_not_sticky", "thread %d got index %lld after it had been told the queue was empty %s", r, (long long) v, d.c_str());
                    note(v, "popped");
                    for (int j = i + 1; j < nops[r]; ++j)
                    {
                        std::int64_t w = res[r][j];
                        if (w < 0) continue;
                        if (ops[r][i] == 'L' ? w <= v : w >= v)
                            stw::bad("order", "thread %d: pop_%s gave %lld, a later pop gave %lld %s", r, ops[r][i] == 'L' ? "left" : "right", (long long) v,
                                (long long) w, d.c_str());
                    }
                }
            }
            for (std::size_t i = 0; i < rest.size(); ++i)
            {
                note(rest[i], "remaining");
                if (i && rest[i] != rest[i - 1] + 1) stw::bad("order", "the remaining indices are not contiguous %s", d.c_str());
            }
            for (std::uint32_t i = 0; i < len; ++i)
                if (!seen[i]) stw::bad("lost", "index %u was neither popped nor left in the queue %s", first + i, d.c_str());
            if (any_empty && !rest.empty()) stw::bad("empty_with_items", "a pop reported an empty queue although %zu indices were left at the end %s", rest.size(), d.c_str());
        }
    };
}    // namespace iq

// ------------------------------------------------------------------------------------------------------ deque
namespace dq {
    using DQ = pika::concurrency::detail::deque<std::uint64_t>;
    struct Tr
    {
        std::optional<DQ> q;
        int nth = 0;
        // push phase
        int npush[4] = {0, 0, 0, 0};
        char pside[4][8];
        bool pfail = false;
        // pop phase
        int npop[4] = {0, 0, 0, 0};
        char oside[4][10];
        std::int64_t ores[4][10];

        static std::uint64_t val(int r, int i) { return (std::uint64_t) (r + 1) * 100 + (std::uint64_t) i; }
        static void push_fn(void* p, int r)
        {
            Tr* t = static_cast<Tr*>(p);
            for (int i = 0; i < t->npush[r]; ++i)
            {
                bool ok = t->pside[r][i] == 'l' ? t->q->push_left(val(r, i)) : t->q->push_right(val(r, i));
                if (!ok) t->pfail = true;
            }
        }
        static void pop_fn(void* p, int r)
        {
            Tr* t = static_cast<Tr*>(p);
            for (int i = 0; i < t->npop[r]; ++i)
            {
                std::uint64_t v = 0;
                bool ok = t->oside[r][i] == 'L' ? t->q->pop_left(v) : t->q->pop_right(v);
                t->ores[r][i] = ok ? (std::int64_t) v : -1;
            }
        }
        std::string describe(char const* mode, std::vector<std::uint64_t> const& seq, std::vector<std::uint64_t> const& rest) const
        {
            std::ostringstream o;
            o << "mode=" << mode << " push=";
            for (int r = 0; r < nth; ++r)
            {
                o << (r ? ";" : "");
                for (int i = 0; i < npush[r]; ++i) o << (i ? "," : "") << pside[r][i] << val(r, i);
            }
            o << " seq=";
            for (std::size_t i = 0; i < seq.size(); ++i) o << (i ? "," : "") << seq[i];
            o << " pop=";
            for (int r = 0; r < nth; ++r)
            {
                o << (r ? ";" : "");
                for (int i = 0; i < npop[r]; ++i) o << (i ? "," : "") << oside[r][i] << ores[r][i];
            }
            o << " rest=";
            for (std::size_t i = 0; i < rest.size(); ++i) o << (i ? "," : "") << rest[i];
            return o.str();
        }
        void run(stw::Pool& P, std::uint64_t trial, vctl::Rng& rng)
        {
            int mode = (int) rng.below(3);    // 0 push, 1 pop, 2 pushpop
            static char const* const MN[3] = {"push", "pop", "pushpop"};
            nth = 2 + (int) rng.below(3);
            int style = (int) rng.below(3);    // 0 mixed ends, 1 thread-wise ends, 2 one end only
            int total = 0;
            for (int r = 0; r < nth; ++r)
            {
                npush[r] = mode == 1 ? 0 : 1 + (int) rng.below(6);
                for (int i = 0; i < npush[r]; ++i) pside[r][i] = style == 1 ? (r % 2 ? 'l' : 'r') : style == 2 ? 'r' : (rng.chance(1, 2) ? 'l' : 'r');
                total += npush[r];
            }
            std::vector<std::uint64_t> seq;    // known content, left to right (pop mode)
            // the pool is pre-sized beyond every allocation of the trial; nothing that was freed is allocated again
            q.emplace(64);
            if (mode == 1)
            {
                total = (int) rng.below(9);    // 0..8: the 0/1/2-element cases are the delicate ones
                for (int i = 0; i < total; ++i)
                {
                    if (!q->push_right(900 + (std::uint64_t) i)) pfail = true;
                    seq.push_back(900 + (std::uint64_t) i);
                }
            }
            {
                char c[40];
                std::snprintf(c, sizeof c, "dq/%s/%s", MN[mode], total <= 2 ? "n0-2" : total <= 8 ? "n3-8" : "n9+");
                stw::set_class(c);
            }
            stw::Task tasks[6];
            if (mode != 1)
            {
                for (int r = 0; r < nth; ++r) tasks[r] = stw::Task{&push_fn, this, r, stw::sweep(rng, 8)};
                P.run(trial * 2 + 1, tasks, nth, (int) rng.below((std::uint64_t) nth));
            }
            if (mode != 0)
            {
                int pstyle = (int) rng.below(3);
                for (int r = 0; r < nth; ++r)
                {
                    npop[r] = 1 + (int) rng.below(mode == 1 ? 5 : 8);
                    for (int i = 0; i < npop[r]; ++i) oside[r][i] = pstyle == 1 ? (r % 2 ? 'L' : 'R') : pstyle == 2 ? 'L' : (rng.chance(1, 2) ? 'L' : 'R');
                    tasks[r] = stw::Task{&pop_fn, this, r, stw::sweep(rng, 8)};
                }
                P.run(trial * 2 + 2, tasks, nth, (int) rng.below((std::uint64_t) nth));
            }
            // drain sequentially, left to right
            std::vector<std::uint64_t> rest;
            for (int k = 0; k < 200; ++k)
            {
                std::uint64_t v = 0;
                if (!q->pop_left(v)) break;
                rest.push_back(v);
            }
            // ---- verdict
            std::string d = describe(MN[mode], seq, rest);
            if (pfail) stw::bad("push_failed", "a push returned false %s", d.c_str());
            // multiset conservation
            std::vector<std::uint64_t> pushed, got;
            for (int r = 0; r < nth; ++r)
                for (int i = 0; i < npush[r]; ++i) pushed.push_back(val(r, i));
            for (auto v : seq) pushed.push_back(v);
            bool any_empty = false;
            for (int r = 0; r < nth; ++r)
                for (int i = 0; i < npop[r]; ++i)
                {
                    if (ores[r][i] >= 0) got.push_back((std::uint64_t) ores[r][i]);
                    else any_empty = true;
                }
            for (auto v : rest) got.push_back(v);
            for (std::size_t i = 0; i < got.size(); ++i)
            {
                bool known = false;
                for (auto p : pushed) known = known || p == got[i];
                if (!known) stw::bad("foreign", "value %llu came out of the deque but was never pushed %s", (unsigned long long) got[i], d.c_str());
                for (std::size_t j = i + 1; j < got.size(); ++j)
                    if (got[i] == got[j]) stw::bad("duplicate", "value %llu was delivered twice %s", (unsigned long long) got[i], d.c_str());
            }
            for (auto p : pushed)
            {
                bool found = false;
                for (auto g : got) found = found || g == p;
                if (!found) stw::bad("lost", "value %llu was pushed but never delivered (popped or drained) %s", (unsigned long long) p, d.c_str());
            }
            if (any_empty && !rest.empty()) stw::bad("empty_with_items", "a pop reported an empty deque although %zu values were left at the end (nothing is pushed during the pop phase) %s", rest.size(), d.c_str());
            // push order on the drained sequence (push mode: nothing was popped concurrently)
            if (mode == 0)
            {
                auto pos = [&](std::uint64_t v) {
                    for (std::size_t i = 0; i < rest.size(); ++i)
                        if (rest[i] == v) return (int) i;
                    return -1;
                };
                for (int r = 0; r < nth; ++r)
                    for (int j = 1; j < npush[r]; ++j)
                        for (int i = 0; i < j; ++i)
                        {
                            int pi = pos(val(r, i)), pj = pos(val(r, j));
                            if (pside[r][j] == 'l' ? pj > pi : pj < pi)
                                stw::bad("push_order", "thread %d pushed %llu to the %s after %llu, but it lies on the other side of it %s", r,
                                    (unsigned long long) val(r, j), pside[r][j] == 'l' ? "left" : "right", (unsigned long long) val(r, i), d.c_str());
                        }
            }
            // pop order against the known sequence (pop mode)
            if (mode == 1)
            {
                auto pos = [&](std::int64_t v) { return (int) (v - 900); };
                for (int r = 0; r < nth; ++r)
                    for (int i = 0; i < npop[r]; ++i)
                    {
                        if (ores[r][i] < 0) continue;
                        for (int j = i + 1; j < npop[r]; ++j)
                        {
                            if (ores[r][j] < 0) continue;
                            if (oside[r][i] == 'L' ? pos(ores[r][j]) < pos(ores[r][i]) : pos(ores[r][j]) > pos(ores[r][i]))
                                stw::bad("pop_order", "thread %d: pop_%s gave %lld, a later pop gave %lld which lay on the outer side of it %s", r,
                                    oside[r][i] == 'L' ? "left" : "right", (long long) ores[r][i], (long long) ores[r][j], d.c_str());
                        }
                    }
                for (std::size_t i = 1; i < rest.size(); ++i)
                    if (rest[i] != rest[i - 1] + 1) stw::bad("pop_order", "the values left in the deque are not a contiguous part of the filled sequence %s", d.c_str());
            }
            q.reset();
        }
    };
}    // namespace dq

// ------------------------------------------------------------------------------ deque, pushes racing pops
// `c17_stress mx`: 2..4 threads run drawn programs (pushes first, then pops, per thread) of push_left / push_right /
// pop_left / pop_right on ONE fresh deque at the same time, so the pops of one thread race the pushes of the others — and still no node is ever reused, so the known finding F15 cannot fire: the harness
// installs a hook function (not the lock-step controller) that counts the allocations (site 1712, right after
// pool_.allocate) and makes a popper that has already won its anchor CAS wait at site 1719 (before it reads the
// value and frees the node) until ALL pushes of the trial have allocated their node.  A push allocates first and
// never waits for anybody (the algorithm is lock-free and a popper parked at 1719 holds nothing), so the wait
// always ends; after it nothing is allocated any more.  Every other hook site is a no-op.
// Monitors: duplicate / lost / foreign (multiset pushed = popped + drained), push_failed; per thread: a value a
// thread popped was pushed (by anybody) — nothing about emptiness can be asserted while pushes are running.
namespace mx {
    using DQ = pika::concurrency::detail::deque<std::uint64_t>;
    static std::atomic<int> g_allocs{0};
    static std::atomic<int> g_total{0};
    static void hookfn(int site, void const*, std::uint64_t, std::uint64_t)
    {
        if (site == 1712) g_allocs.fetch_add(1, std::memory_order_acq_rel);
        else if (site == 1719)
        {
            unsigned spins = 0;
            while (g_allocs.load(std::memory_order_acquire) < g_total.load(std::memory_order_relaxed))
                if (++spins > 2000) std::this_thread::yield();
        }
    }
    struct Tr
    {
        std::optional<DQ> q;
        int nth = 0;
        int nops[4] = {0, 0, 0, 0};
        char ops[4][10];
        std::int64_t res[4][10];
        bool pfail = false;
        static std::uint64_t val(int r, int i) { return (std::uint64_t) (r + 1) * 100 + (std::uint64_t) i; }
        static void role_fn(void* p, int r)
        {
            Tr* t = static_cast<Tr*>(p);
            for (int i = 0; i < t->nops[r]; ++i)
            {
                char o = t->ops[r][i];
                std::uint64_t v = 0;
                if (o == 'l') t->res[r][i] = t->q->push_left(val(r, i)) ? 1 : (t->pfail = true, 0);
                else if (o == 'r') t->res[r][i] = t->q->push_right(val(r, i)) ? 1 : (t->pfail = true, 0);
                else if (o == 'L') t->res[r][i] = t->q->pop_left(v) ? (std::int64_t) v : -1;
                else t->res[r][i] = t->q->pop_right(v) ? (std::int64_t) v : -1;
            }
        }
        void run(stw::Pool& P, std::uint64_t trial, vctl::Rng& rng)
        {
            nth = 2 + (int) rng.below(3);
            int style = (int) rng.below(3);    // 0 drawn split per thread, 1 producers/consumers, 2 every thread pushes then pops (half/half)
            int npre = (int) rng.below(4);
            int total = 0;
            for (int r = 0; r < nth; ++r)
            {
                nops[r] = 1 + (int) rng.below(8);
                // within one thread every push comes before every pop: a popper parked at 1719 waits for ALL pushes of
                // the trial to have allocated, so it must not have a push of its own still ahead of it
                int npush = style == 0 ? (int) rng.below((std::uint64_t) nops[r] + 1) : style == 1 ? (r % 2 == 0 ? nops[r] : 0) : (nops[r] + 1) / 2;
                for (int i = 0; i < nops[r]; ++i)
                {
                    bool push = i < npush;
                    bool left = rng.chance(1, 2);
                    ops[r][i] = push ? (left ? 'l' : 'r') : (left ? 'L' : 'R');
                    if (push) ++total;
                }
            }
            {
                char c[40];
                static char const* const SN[3] = {"anysplit", "prodcons", "halfsplit"};
                std::snprintf(c, sizeof c, "dq/race/%s/pre%d", SN[style], npre ? 1 : 0);
                stw::set_class(c);
            }
            q.emplace(64);
            g_total.store(0);
            std::vector<std::uint64_t> pushed, got;
            for (int i = 0; i < npre; ++i)
            {
                if (!q->push_right(900 + (std::uint64_t) i)) pfail = true;
                pushed.push_back(900 + (std::uint64_t) i);
            }
            g_allocs.store(0);
            g_total.store(total);
            stw::Task tasks[6];
            for (int r = 0; r < nth; ++r) tasks[r] = stw::Task{&role_fn, this, r, stw::sweep(rng, 8)};
            P.run(trial + 1, tasks, nth, (int) rng.below((std::uint64_t) nth));
            std::vector<std::uint64_t> rest;
            for (int k = 0; k < 200; ++k)
            {
                std::uint64_t v = 0;
                if (!q->pop_left(v)) break;
                rest.push_back(v);
            }
            // ---- verdict
            std::ostringstream o;
            o << "pre=" << npre << " programs=";
            for (int r = 0; r < nth; ++r)
            {
                o << (r ? ";" : "") << "@" << tasks[r].delay << ":";
                for (int i = 0; i < nops[r]; ++i)
                {
                    o << (i ? "," : "") << ops[r][i];
                    if (ops[r][i] == 'l' || ops[r][i] == 'r') o << val(r, i);
                    else o << "=" << res[r][i];
                }
            }
            o << " rest=";
            for (std::size_t i = 0; i < rest.size(); ++i) o << (i ? "," : "") << rest[i];
            o << " allocs=" << g_allocs.load() << "/" << total;
            std::string d = o.str();
            if (pfail) stw::bad("push_failed", "a push returned false %s", d.c_str());
            if (g_allocs.load() != total) stw::bad("alloc_count", "the trial has %d pushes but %d nodes were allocated %s", total, g_allocs.load(), d.c_str());
            for (int r = 0; r < nth; ++r)
                for (int i = 0; i < nops[r]; ++i)
                {
                    if (ops[r][i] == 'l' || ops[r][i] == 'r') pushed.push_back(val(r, i));
                    else if (res[r][i] >= 0) got.push_back((std::uint64_t) res[r][i]);
                }
            for (auto v : rest) got.push_back(v);
            for (std::size_t i = 0; i < got.size(); ++i)
            {
                bool known = false;
                for (auto p : pushed) known = known || p == got[i];
                if (!known) stw::bad("foreign", "value %llu came out of the deque but was never pushed %s", (unsigned long long) got[i], d.c_str());
                for (std::size_t j = i + 1; j < got.size(); ++j)
                    if (got[i] == got[j]) stw::bad("duplicate", "value %llu was delivered twice %s", (unsigned long long) got[i], d.c_str());
            }
            for (auto p : pushed)
            {
                bool found = false;
                for (auto g : got) found = found || g == p;
                if (!found) stw::bad("lost", "value %llu was pushed but never delivered (popped or drained) %s", (unsigned long long) p, d.c_str());
            }
            g_total.store(0);
            q.reset();
        }
    };
}    // namespace mx

int main(int argc, char** argv)
{
    std::string mode = argc > 1 ? argv[1] : "iq";
    std::uint64_t seed = argc > 2 ? std::strtoull(argv[2], nullptr, 10) : 1;
    std::uint64_t ntrials = argc > 3 ? std::strtoull(argv[3], nullptr, 10) : 100000;
    long budget = argc > 4 ? std::atol(argv[4]) : 5000;
    if (mode == "iq")
        return stw::run_forked("IQS", seed, ntrials, budget, [](stw::Pool& P, std::uint64_t tr, vctl::Rng& rng) {
            auto t = std::make_unique<iq::Tr>();
            t->run(P, tr, rng);
        }, 6, 20000);
    if (mode == "mx")
    {
        pika::verif::hook.store(&mx::hookfn, std::memory_order_release);
        return stw::run_forked("DQM", seed, ntrials, budget, [](stw::Pool& P, std::uint64_t tr, vctl::Rng& rng) {
            auto t = std::make_unique<mx::Tr>();
            t->run(P, tr, rng);
        }, 6, 20000);
    }
    return stw::run_forked("DQS", seed, ntrials, budget, [](stw::Pool& P, std::uint64_t tr, vctl::Rng& rng) {
        auto t = std::make_unique<dq::Tr>();
        t->run(P, tr, rng);
    }, 6, 20000);
}
