// C14 (stop_token) DIFF harness for handle histories: random sequential histories of
// pika::stop_source / pika::stop_token object operations on the REAL classes, observed through
// the public accessors after every step.  The same histories are replayed by the extracted Coq
// model (coq/Model/StopHandles.v, h_trace) and must give identical OUT lines; tools/props/
// c14_handles.py additionally evaluates the property itself on the OUT lines.
//
// argv: seed ncases maxlen
//
// IN  H <id> <op> <op> ...
//   ops (i, j are slot numbers 0..3; only ops whose precondition holds are generated):
//     sn<i>      src[i].emplace()                          stop_source()            (slot i dead)
//     sz<i>      src[i].emplace(nostopstate)                                        (slot i dead)
//     sc<i>,<j>  src[i].emplace(*src[j])                   copy constructor         (i dead, j alive)
//     sm<i>,<j>  src[i].emplace(std::move(*src[j]))        move constructor         (i dead, j alive)
//     sa<i>,<j>  *src[i] = *src[j]                         copy assignment          (both alive, i==j allowed)
//     sv<i>,<j>  *src[i] = std::move(*src[j])              move assignment          (both alive, i==j allowed)
//     sx<i>,<j>  src[i]->swap(*src[j])                                              (both alive, i==j allowed)
//     sd<i>      src[i].reset()                            destructor               (alive)
//     sr<i>      src[i]->request_stop()                    result recorded          (alive)
//     tz<i>      tok[i].emplace()                          stop_token()             (dead)
//     tg<i>,<j>  tok[i].emplace(src[j]->get_token())                                (tok i dead, src j alive)
//     tc tm ta tv tx td : as sc sm sa sv sx sd on the token slots
// OUT H <id> <obs after step 1>;<obs after step 2>;... req=<results>
//   obs = <sources>|<tokens>; each side lists every ALIVE slot in slot order as
//   <slot>:<stop_possible><stop_requested> (0/1), comma separated, '-' when none is alive.
//   results = the request_stop return values in call order as 0/1 characters, '-' when none.
#include "common/ctl.hpp"

#include <pika/synchronization/stop_token.hpp>

#include <cstdio>
#include <cstdlib>
#include <optional>
#include <string>
#include <utility>

static constexpr int NS = 4;
static constexpr int NT = 4;

static std::optional<pika::stop_source> src[NS];
static std::optional<pika::stop_token> tok[NT];

template <typename A>
static void obs_side(std::string& o, A& a, int n)
{
    bool any = false;
    for (int i = 0; i < n; ++i)
    {
        if (!a[i]) continue;
        if (any) o.push_back(',');
        any = true;
        o.push_back((char) ('0' + i));
        o.push_back(':');
        o.push_back(a[i]->stop_possible() ? '1' : '0');
        o.push_back(a[i]->stop_requested() ? '1' : '0');
    }
    if (!any) o.push_back('-');
}

// do not let the compiler see through self assignment / self move
template <typename T>
static T& alias(T& x)
{
    T* volatile p = &x;
    return *p;
}

int main(int argc, char** argv)
{
    std::uint64_t seed = argc > 1 ? std::strtoull(argv[1], nullptr, 10) : 1;
    long ncases = argc > 2 ? std::atol(argv[2]) : 100;
    int maxlen = argc > 3 ? std::atoi(argv[3]) : 12;
    if (maxlen < 1) maxlen = 1;
    vctl::Rng rng(seed);
    std::string in, out, req;
    for (long cs = 0; cs < ncases; ++cs)
    {
        int len = 1 + (int) rng.below(maxlen);
        in = "IN H " + std::to_string(cs);
        out = "OUT H " + std::to_string(cs) + " ";
        req.clear();
        // The IN line must be complete before the ops run (a crash leaves it as the last line),
        // so generate against a shadow of the aliveness only, then execute.
        bool sa[NS] = {false, false, false, false}, ta[NT] = {false, false, false, false};
        struct Op
        {
            char k, o;
            int i, j;
        };
        Op ops[64];
        int nops = 0;
        auto pickb = [&](bool* a, int n, bool want) {
            int c[8];
            int k = 0;
            for (int i = 0; i < n; ++i)
                if (a[i] == want) c[k++] = i;
            return k == 0 ? -1 : c[rng.below(k)];
        };
        for (int step = 0; step < len && nops < 64; ++step)
        {
            for (int tries = 0; tries < 40; ++tries)
            {
                bool isrc = rng.chance(11, 20);
                bool* a = isrc ? sa : ta;
                int n = isrc ? NS : NT;
                char kind = isrc ? 's' : 't';
                // weights: n z/g c m a v x d r
                static char const sops[] = "nnnzccmmaaaaavvvxxddrr";
                static char const tops[] = "zgggggccmmaaaavvvxxdd";
                char o = isrc ? sops[rng.below(sizeof(sops) - 1)] : tops[rng.below(sizeof(tops) - 1)];
                int i = -1, j = -1;
                switch (o)
                {
                case 'n':
                case 'z': i = pickb(a, n, false); j = 0; break;
                case 'g':
                    i = pickb(ta, NT, false);
                    j = pickb(sa, NS, true);
                    break;
                case 'c':
                case 'm':
                    i = pickb(a, n, false);
                    j = pickb(a, n, true);
                    break;
                case 'a':
                case 'v':
                case 'x':
                    i = pickb(a, n, true);
                    j = rng.chance(1, 5) ? i : pickb(a, n, true);
                    break;
                case 'd':
                case 'r': i = pickb(a, n, true); j = 0; break;
                }
                if (i < 0 || j < 0) continue;
                if (o == 'n' || o == 'z' || o == 'g' || o == 'c' || o == 'm') a[i] = true;
                if (o == 'd') a[i] = false;
                ops[nops++] = Op{kind, o, i, j};
                in.push_back(' ');
                in.push_back(kind);
                in.push_back(o);
                in.push_back((char) ('0' + i));
                if (o == 'g' || o == 'c' || o == 'm' || o == 'a' || o == 'v' || o == 'x')
                {
                    in.push_back(',');
                    in.push_back((char) ('0' + j));
                }
                break;
            }
        }
        in.push_back('\n');
        std::fputs(in.c_str(), stdout);
        std::fflush(stdout);

        for (int k = 0; k < nops; ++k)
        {
            Op const& p = ops[k];
            int i = p.i, j = p.j;
            if (p.k == 's')
            {
                switch (p.o)
                {
                case 'n': src[i].emplace(); break;
                case 'z': src[i].emplace(pika::nostopstate); break;
                case 'c': src[i].emplace(*src[j]); break;
                case 'm': src[i].emplace(std::move(*src[j])); break;
                case 'a': *src[i] = alias(*src[j]); break;
                case 'v': *src[i] = std::move(alias(*src[j])); break;
                case 'x': src[i]->swap(alias(*src[j])); break;
                case 'd': src[i].reset(); break;
                case 'r': req.push_back(src[i]->request_stop() ? '1' : '0'); break;
                }
            }
            else
            {
                switch (p.o)
                {
                case 'z': tok[i].emplace(); break;
                case 'g': tok[i].emplace(src[j]->get_token()); break;
                case 'c': tok[i].emplace(*tok[j]); break;
                case 'm': tok[i].emplace(std::move(*tok[j])); break;
                case 'a': *tok[i] = alias(*tok[j]); break;
                case 'v': *tok[i] = std::move(alias(*tok[j])); break;
                case 'x': tok[i]->swap(alias(*tok[j])); break;
                case 'd': tok[i].reset(); break;
                }
            }
            if (k) out.push_back(';');
            obs_side(out, src, NS);
            out.push_back('|');
            obs_side(out, tok, NT);
        }
        out += " req=";
        out += req.empty() ? std::string("-") : req;
        out.push_back('\n');
        std::fputs(out.c_str(), stdout);
        std::fflush(stdout);
        for (auto& s : src) s.reset();
        for (auto& t : tok) t.reset();
    }
    return 0;
}
