// harness/c01_staged.cpp — C01 "never dropped: every unit of work handed to a pool has its body
// entered", for STAGED work on workers that never go idle.
//
// Normal-priority work is created as a staged task description (thread_queue::new_tasks_) and only
// becomes a runnable thread when a worker converts it (thread_queue::add_new, reached through
// SchedulingPolicy::wait_or_add_new).  scheduling_loop calls wait_or_add_new in its idle branch AND
// right after a task returned `pending` / `pending_boost` (a yield).  When every worker always finds a
// runnable thread in its own queue the idle branch is never taken: the conversion after a yield is
// then the only thing between a submitted task and starvation.
//
// usage: c01_staged <seed> <policy|default> <workers> <ntasks> [limit_s=8] [yielders_per_worker=0 (seeded 2..3)]
//
// One process = one runtime.  Phase 0: `ypw` (2..3) long-lived tasks per worker, hinted to that worker,
// loop on pika::this_thread::yield() until told to stop; the harness waits until all of them have
// started and yielded a few hundred times.  Phase 1 (3 rounds): ntasks/3 short tasks per round are
// submitted while the yielders keep spinning
//   * from a plain OS thread: register_work with a hint to worker j mod N (round robin), register_work
//     without hint (the scheduler's own round robin), execute(thread_pool_scheduler{}, f),
//     start_detached(schedule(with_hint(sched, j mod N)) | then(f));
//   * from tasks: every 4th submitted task submits a child, and the yielders themselves submit
//     between two yields.
// Monitors (independent of the Coq model):
//   dropped/staged_never_converted   a submitted task has not run although `limit_s` seconds passed
//                                    since the last submission of the round AND every yielder has gone
//                                    through >= 3000 further yields (every busy worker passed the
//                                    point after a yield thousands of times; a loaded machine that
//                                    de-schedules the workers does not advance that count);
//   dropped/never_ran                still not run 10 s after the yielders were stopped (workers idle);
//   dropped/submission_threw         the submission call itself threw;
//   entered_twice/staged             a ledger entry counted twice.
// NOT part of the scenario: threads created at once (pika::thread, high priority) from ANOTHER OS thread.  They are pushed
// straight into the pending queue, and with the FIFO back-ends (moodycamel ConcurrentQueue: FIFO per producer only) a
// worker that keeps re-filling its own sub-queue with yielding tasks never gets to the sub-queue of the foreign producer:
// on the unchanged tree such a thread stays `pending` for as long as the yielders spin (fairness observation of
// notes/design/C01.md; seen again while writing this harness: `pika::thread(pool, f)` from the OS thread, default scheduler,
// 1/2/4 workers, staged=0 pending=yielders+k for 8 s).  Staged descriptions are converted by the queue's own worker, so
// the property text's "never dropped" can be monitored for them with a bound.
// A busy runtime that does not reach the yield count within 60 s is INCONCLUSIVE (exit 4), never a hit.
// Coverage (hooks 110/111/120/122, counters only): how many staged descriptions were converted
// by a worker between the end of a phase that returned `pending` and the re-queueing of that thread
// (conv_after_yield) and how many anywhere else (conv_other: idle branch, start-up).
#include <pika/config.hpp>
#include <pika/execution.hpp>
#include <pika/init.hpp>
#include <pika/runtime/runtime.hpp>
#include <pika/thread.hpp>
#include <pika/threading_base/register_thread.hpp>
#include <pika/threading_base/thread_data.hpp>
#include <pika/threading_base/thread_helpers.hpp>
#include <pika/threading_base/thread_pool_base.hpp>

#include <atomic>
#include <chrono>
#include <cstdint>
#include <cstdio>
#include <cstdlib>
#include <cstring>
#include <exception>
#include <memory>
#include <string>
#include <thread>
#include <unistd.h>
#include <vector>

#if !defined(PIKA_VERIF)
# error "harnesses must be compiled with -DPIKA_VERIF"
#endif

namespace ex = pika::execution;
namespace pex = pika::execution::experimental;
using namespace pika::threads::detail;

static std::uint64_t splitmix(std::uint64_t& s)
{
    std::uint64_t z = (s += 0x9e3779b97f4a7c15ull);
    z = (z ^ (z >> 30)) * 0xbf58476d1ce4e5b9ull;
    z = (z ^ (z >> 27)) * 0x94d049bb133111ebull;
    return z ^ (z >> 31);
}
struct Rng
{
    std::uint64_t s;
    explicit Rng(std::uint64_t seed)
      : s(seed * 0x2545F4914F6CDD1Dull + 99)
    {
    }
    std::uint64_t next() { return splitmix(s); }
    int below(int n) { return n <= 0 ? 0 : int(next() % std::uint64_t(n)); }
};

static double now_s()
{
    static auto const t0 = std::chrono::steady_clock::now();
    return std::chrono::duration<double>(std::chrono::steady_clock::now() - t0).count();
}

// ------------------------------------------------------------------ coverage hook (counters only)
static std::atomic<long> g_conv_after_yield{0}, g_conv_other{0};
static thread_local void const* t_yielded = nullptr;
static void hookfn(int site, void const* obj, std::uint64_t, std::uint64_t b)
{
    switch (site)
    {
    case 110: t_yielded = nullptr; break;
    case 111:
        // b = the state the phase returned
        t_yielded = (b == std::uint64_t(thread_schedule_state::pending) || b == std::uint64_t(thread_schedule_state::pending_boost)) ?
            obj :
            nullptr;
        break;
    case 120:
        if (obj == t_yielded) t_yielded = nullptr;    // the yielded thread went back into a queue
        break;
    case 122: (t_yielded != nullptr ? g_conv_after_yield : g_conv_other).fetch_add(1, std::memory_order_relaxed); break;
    default: break;
    }
}

// ------------------------------------------------------------------ ledger
constexpr int MAXT = 8192;
static std::atomic<int> g_ran[MAXT];
static std::atomic<int> g_path[MAXT];
static double g_sub_at[MAXT];
static std::atomic<int> g_next{0}, g_done{0}, g_twice{0}, g_threw{0};
static std::atomic<double> g_maxlat{0.0};
static int g_workers = 1;
static char const* const PATHS[] = {"register_work_hint", "register_work_nohint", "execute", "schedule_hint_then", "pika_thread",
    "child_of_task", "from_yielder"};

static void submit(int path, int hint);

static void task_body(int id)
{
    if (g_ran[id].fetch_add(1) != 0) g_twice.fetch_add(1);
    double lat = now_s() - g_sub_at[id];
    double m = g_maxlat.load();
    while (lat > m && !g_maxlat.compare_exchange_weak(m, lat)) {}
    if (id % 4 == 0 && g_path[id].load() < 5) submit(5, id % g_workers);    // from a task
    g_done.fetch_add(1);
}

// path: 0 register_work + hint, 1 register_work no hint, 2 execute, 3 schedule(with_hint)|then, 4 pika::thread,
//       5 child (register_work + hint, from a task), 6 from a yielder (alternating 0 / 2)
static void submit(int path, int hint)
{
    int id = g_next.fetch_add(1);
    if (id >= MAXT) return;
    g_path[id].store(path);
    g_sub_at[id] = now_s();
    try
    {
        int how = path;
        if (path == 5) how = 0;
        if (path == 6) how = (id & 1) ? 0 : 2;
        switch (how)
        {
        case 0:
        {
            thread_init_data data(make_thread_function_nullary([id] { task_body(id); }), "verif-staged", ex::thread_priority::normal,
                ex::thread_schedule_hint(std::int16_t(hint)), ex::thread_stacksize::small_);
            register_work(data);
            break;
        }
        case 1:
        {
            thread_init_data data(make_thread_function_nullary([id] { task_body(id); }), "verif-staged", ex::thread_priority::normal,
                ex::thread_schedule_hint(), ex::thread_stacksize::small_);
            register_work(data);
            break;
        }
        case 2: pex::execute(pex::thread_pool_scheduler{}, [id] { task_body(id); }); break;
        case 3:
        {
            auto sched = pex::with_hint(pex::thread_pool_scheduler{}, ex::thread_schedule_hint(std::int16_t(hint)));
            pex::start_detached(pex::schedule(sched) | pex::then([id] { task_body(id); }));
            break;
        }
        default:
        {
            // pika::thread(F) needs a pika thread as creator (it takes the creator's pool); the pool constructor works from any thread
            pika::thread t(&pika::resource::get_thread_pool("default"), [id] { task_body(id); });
            t.detach();
            break;
        }
        }
    }
    catch (std::exception const& e)
    {
        if (g_threw.fetch_add(1) == 0)
            std::printf("MON 1 dropped kind=submission_threw path=%s id=%d: %s\n", PATHS[path], id, e.what());
        g_ran[id].fetch_add(1000);    // accounted for: reported above
        g_done.fetch_add(1);
    }
}

// ------------------------------------------------------------------ yielders
constexpr int MAXY = 64;
struct alignas(64) YState
{
    std::atomic<long> yields{0};
    std::atomic<int> started{0}, finished{0}, req{0}, worker{-1};
};
static YState g_y[MAXY];
static std::atomic<int> g_stop{0};

static void yielder(int i, int nworkers)
{
    YState& y = g_y[i];
    y.started.store(1, std::memory_order_release);
    long k = 0;
    while (!g_stop.load(std::memory_order_acquire))
    {
        pika::this_thread::yield();
        y.yields.store(++k, std::memory_order_relaxed);
        if ((k & 63) == 0) y.worker.store(int(pika::get_worker_thread_num()), std::memory_order_relaxed);
        if (y.req.load(std::memory_order_relaxed) > 0)
        {
            y.req.fetch_sub(1);
            submit(6, (i + 1 + int(k % 3)) % nworkers);
        }
    }
    y.finished.store(1, std::memory_order_release);
}

static void die_after(char const* what, int rc)
{
    std::printf("%s\n", what);
    std::fflush(stdout);
    _exit(rc);
}

int main(int argc, char** argv)
{
    std::uint64_t seed = argc > 1 ? std::strtoull(argv[1], nullptr, 10) : 1;
    std::string policy = argc > 2 ? argv[2] : "default";
    int workers = argc > 3 ? std::atoi(argv[3]) : 2;
    int ntasks = argc > 4 ? std::atoi(argv[4]) : 240;
    double limit_s = argc > 5 ? std::atof(argv[5]) : 8.0;
    int ypw = argc > 6 ? std::atoi(argv[6]) : 0;
    setvbuf(stdout, nullptr, _IOLBF, 0);
    Rng g(seed * 1000003ull + std::hash<std::string>{}(policy) % 997 + std::uint64_t(workers) * 31);
    if (ypw <= 0) ypw = 2 + g.below(2);
    if (workers < 1) workers = 1;
    if (workers * ypw > MAXY) ypw = MAXY / workers;
    if (ntasks > MAXT / 2) ntasks = MAXT / 2;
    g_workers = workers;
    int const ny = workers * ypw;
    long const YIELDS_NEEDED = 3000;

    std::string a1 = "--pika:threads=" + std::to_string(workers);
    std::string a2 = "--pika:scheduler=" + policy;
    char* av[] = {argv[0], a1.data(), a2.data(), nullptr};
    pika::verif::hook.store(&hookfn, std::memory_order_release);
    pika::start(policy == "default" ? 2 : 3, av);
    std::printf("INFO 1 start mode=staged policy=%s workers=%d seed=%llu yielders_per_worker=%d ntasks=%d limit_s=%.1f\n", policy.c_str(),
        workers, (unsigned long long) seed, ypw, ntasks, limit_s);

    auto* pool = &pika::resource::get_thread_pool("default");
    int rc = 0, monhits = 0;
    bool inconclusive = false;

    // ---- phase 0: the yielders, hinted to their worker
    for (int i = 0; i < ny; ++i)
    {
        int w = i % workers;
        thread_init_data data(make_thread_function_nullary([i, workers] { yielder(i, workers); }), "verif-yielder",
            ex::thread_priority::normal, ex::thread_schedule_hint(std::int16_t(w)), ex::thread_stacksize::small_);
        register_work(data);
    }
    {
        double t0 = now_s();
        for (;;)
        {
            bool all = true;
            for (int i = 0; i < ny; ++i)
                if (!g_y[i].started.load(std::memory_order_acquire) || g_y[i].yields.load(std::memory_order_relaxed) < 300) all = false;
            if (all) break;
            std::this_thread::sleep_for(std::chrono::microseconds(200));
            if (now_s() - t0 > 60.0)
            {
                int st = 0;
                for (int i = 0; i < ny; ++i) st += g_y[i].started.load();
                std::printf("MON 1 dropped kind=yielders_not_started %d of %d long-lived tasks (normal priority, hinted to their worker) started "
                            "within 60 s on an otherwise empty runtime; staged=%lld pending=%lld\n",
                    st, ny, (long long) pool->get_thread_count_staged(std::size_t(-1), false),
                    (long long) pool->get_thread_count_pending(std::size_t(-1), false));
                std::printf("SUMMARY mode=staged policy=%s workers=%d cases=1 tasks=%d monhits=1 rc=3\n", policy.c_str(), workers, ny);
                die_after("", 3);
            }
        }
    }
    long conv0_after = g_conv_after_yield.load(), conv0_other = g_conv_other.load();

    // ---- phase 1: rounds of submissions while every worker is busy with yielders
    int const ROUNDS = 3;
    int first_missing = -1;
    for (int round = 0; round < ROUNDS && rc == 0; ++round)
    {
        int per_round = ntasks / ROUNDS;
        int from_yielders = per_round / 5;
        int from_ext = per_round - from_yielders;
        std::uint64_t rs = g.next();
        std::thread ext([&] {
            Rng eg(rs);
            for (int j = 0; j < from_ext; ++j)
            {
                int r = eg.below(20);
                int path = r < 8 ? 0 : (r < 12 ? 1 : (r < 16 ? 2 : 3));
                submit(path, j % workers);
                if (eg.below(8) == 0) std::this_thread::sleep_for(std::chrono::microseconds(eg.below(150)));
            }
        });
        for (int k = 0; k < from_yielders; ++k) g_y[(k + round) % ny].req.fetch_add(1);
        ext.join();
        // the yielders take their requests within a few yields
        double t_sub = now_s();
        for (;;)
        {
            int open = 0;
            for (int i = 0; i < ny; ++i) open += g_y[i].req.load();
            if (open == 0) break;
            std::this_thread::sleep_for(std::chrono::microseconds(100));
            if (now_s() - t_sub > 60.0) break;    // falls into the watchdog below (yield counts do not advance)
        }
        t_sub = now_s();
        long snap[MAXY];
        for (int i = 0; i < ny; ++i) snap[i] = g_y[i].yields.load();
        for (;;)
        {
            int alloc = g_next.load();
            if (g_done.load() >= alloc)
            {
                std::this_thread::sleep_for(std::chrono::microseconds(300));    // children allocate before the parent counts
                if (g_done.load() >= g_next.load()) break;
                continue;
            }
            std::this_thread::sleep_for(std::chrono::microseconds(200));
            double el = now_s() - t_sub;
            if (el < limit_s) continue;
            long minadv = -1;
            for (int i = 0; i < ny; ++i)
            {
                long adv = g_y[i].yields.load() - snap[i];
                if (minadv < 0 || adv < minadv) minadv = adv;
            }
            if (minadv >= YIELDS_NEEDED)
            {
                int missing = 0;
                std::string paths;
                int bypath[7] = {0, 0, 0, 0, 0, 0, 0};
                for (int id = 0; id < g_next.load() && id < MAXT; ++id)
                    if (g_ran[id].load() == 0)
                    {
                        if (first_missing < 0) first_missing = id;
                        ++missing;
                        ++bypath[g_path[id].load()];
                    }
                for (int p = 0; p < 7; ++p)
                    if (bypath[p]) paths += std::string(paths.empty() ? "" : ",") + PATHS[p] + "=" + std::to_string(bypath[p]);
                std::string res;
                for (int i = 0; i < ny; ++i) res += (i ? "," : "") + std::to_string(g_y[i].worker.load());
                std::printf("MON 1 dropped kind=staged_never_converted round=%d: %d of %d submitted tasks have not run %.1f s after the last "
                            "submission although every one of the %d yielding tasks went through >= %ld further yields (no worker is idle: "
                            "staged work is only converted after a yield); missing by submission path: %s; first missing id=%d; pool counts "
                            "staged=%lld pending=%lld active=%lld; yielder->worker %s; converted_after_yield=%ld converted_elsewhere=%ld\n",
                    round, missing, g_next.load(), el, ny, minadv, paths.c_str(), first_missing,
                    (long long) pool->get_thread_count_staged(std::size_t(-1), false),
                    (long long) pool->get_thread_count_pending(std::size_t(-1), false),
                    (long long) pool->get_thread_count_active(std::size_t(-1), false), res.c_str(),
                    g_conv_after_yield.load() - conv0_after, g_conv_other.load() - conv0_other);
                std::fflush(stdout);
                ++monhits;
                rc = 3;
                break;
            }
            if (el > 60.0)
            {
                std::printf("INCONCLUSIVE 1 kind=staged busy after %.0fs done=%d expected=%d min_yield_advance=%ld\n", el, g_done.load(),
                    g_next.load(), minadv);
                inconclusive = true;
                rc = 4;
                break;
            }
        }
    }
    long conv_after = g_conv_after_yield.load() - conv0_after, conv_other = g_conv_other.load() - conv0_other;
    std::string res;
    int min_res = ny;
    {
        std::vector<int> cnt(std::size_t(workers), 0);
        for (int i = 0; i < ny; ++i)
        {
            int w = g_y[i].worker.load();
            res += (i ? "," : "") + std::to_string(w);
            if (w >= 0 && w < workers) ++cnt[std::size_t(w)];
        }
        for (int c : cnt) min_res = c < min_res ? c : min_res;
    }

    // ---- stop the yielders; whatever is left must run now (idle branch)
    g_stop.store(1, std::memory_order_release);
    int late = 0;
    {
        double t0 = now_s();
        int before = g_done.load();
        for (;;)
        {
            bool fin = true;
            for (int i = 0; i < ny; ++i)
                if (!g_y[i].finished.load(std::memory_order_acquire)) fin = false;
            if (fin && g_done.load() >= g_next.load()) break;
            std::this_thread::sleep_for(std::chrono::microseconds(300));
            if (now_s() - t0 > 10.0 + (inconclusive ? 50.0 : 0.0))
            {
                int missing = 0;
                for (int id = 0; id < g_next.load() && id < MAXT; ++id)
                    if (g_ran[id].load() == 0) ++missing;
                if (!inconclusive || fin)
                {
                    std::printf("MON 1 dropped kind=never_ran %d of %d submitted tasks have not run 10 s after the long-lived tasks were told to stop "
                                "(yielders finished=%d); staged=%lld pending=%lld\n",
                        missing, g_next.load(), int(fin), (long long) pool->get_thread_count_staged(std::size_t(-1), false),
                        (long long) pool->get_thread_count_pending(std::size_t(-1), false));
                    ++monhits;
                    rc = 3;
                }
                break;
            }
        }
        late = g_done.load() - before;
    }
    if (g_twice.load())
    {
        std::printf("MON 1 entered_twice kind=staged %d ledger entries were counted more than once\n", g_twice.load());
        ++monhits;
        rc = rc ? rc : 3;
    }
    if (g_threw.load())
    {
        ++monhits;    // line printed at the first occurrence
        rc = rc ? rc : 3;
    }
    std::printf("CASE 1 kind=staged policy=%s workers=%d yielders=%d tasks=%d done=%d conv_after_yield=%ld conv_other=%ld late=%d "
                "min_resident_yielders=%d yielder_workers=%s maxlat_ms=%.1f\n",
        policy.c_str(), workers, ny, g_next.load(), g_done.load(), conv_after, conv_other, late, min_res, res.c_str(), g_maxlat.load() * 1e3);
    std::printf("SUMMARY mode=staged policy=%s workers=%d cases=1 tasks=%d monhits=%d rc=%d\n", policy.c_str(), workers, g_next.load(), monhits,
        rc);
    std::fflush(stdout);
    if (rc != 0) _exit(rc);    // the runtime may be unable to drain
    // a hang of finalize/stop is a hit of the plug-in's time-out (status 124)
    pika::finalize();
    pika::stop();
    return 0;
}
