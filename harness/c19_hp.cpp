// harness/c19_hp.cpp — C19, round w11c: separate high-priority queues of local_priority_queue_scheduler.
//   c19_hp <id> <nw> <nhp> <high 0|1> <n>
// A pool "w" of nw workers (local_priority_fifo, elasticity + stealing) with nhp high-priority queues
// (pika.thread_queue.high_priority_queues).  An OS thread suspends processing unit 0 (must return, watchdog), then submits n tasks
// with hint 1 (priority high / normal).  Worker 1 is running and stealing is enabled: reports how many of the tasks ran WITHOUT a
// resume (2.5 s after the last submission, or as soon as all have run), the worker states, and how many had run 5 s after PU 0 was
// resumed.  Compared with Model/SuspendResumeHP.v (drv_c19.ml, kind HPQ); the monitor (tools/props/c19.py) needs no model.
#include <pika/execution.hpp>
#include <pika/init.hpp>
#include <pika/modules/resource_partitioner.hpp>
#include <pika/runtime.hpp>
#include <pika/threading_base/scheduler_base.hpp>
#include <pika/threading_base/thread_pool_base.hpp>

#include <atomic>
#include <chrono>
#include <cstdio>
#include <cstdlib>
#include <string>
#include <thread>
#include <unistd.h>

namespace ex = pika::execution::experimental;
using namespace std::chrono_literals;

static int g_nw = 2;

int main(int argc, char** argv)
{
    if (argc < 6) return 2;
    std::string id = argv[1];
    g_nw = std::atoi(argv[2]);
    int nhp = std::atoi(argv[3]);
    bool high = std::atoi(argv[4]) != 0;
    int n = std::atoi(argv[5]);
    setvbuf(stdout, nullptr, _IOLBF, 0);
    std::thread watchdog([] {
        std::this_thread::sleep_for(60s);
        std::printf("HANG watchdog\n");
        std::fflush(stdout);
        _exit(3);
    });
    watchdog.detach();

    pika::init_params p;
    p.cfg = {"pika.os_threads=" + std::to_string(g_nw + 2), "pika.thread_queue.high_priority_queues!=" + std::to_string(nhp)};
    p.rp_callback = [](auto& rp, pika::program_options::variables_map const&) {
        using pika::threads::scheduler_mode;
        rp.create_thread_pool("w", pika::resource::scheduling_policy::local_priority_fifo,
            scheduler_mode::default_mode | scheduler_mode::enable_elasticity);
        int added = 0;
        for (auto const& d : rp.sockets())
            for (auto const& c : d.cores())
                for (auto const& pu : c.pus())
                    if (added < g_nw)
                    {
                        rp.add_resource(pu, "w");
                        ++added;
                    }
    };
    char* av[] = {argv[0], (char*) "--pika:ignore-process-mask", nullptr};
    pika::start(nullptr, 2, av, p);
    auto& tp = pika::resource::get_thread_pool("w");
    auto* sched = tp.get_scheduler();
    auto states = [&] {
        std::string s;
        for (int w = 0; w < g_nw; ++w) s += (w ? "," : "") + std::to_string((int) sched->get_state(std::size_t(w)).load());
        return s;
    };
    std::atomic<int> done{0};
    std::atomic<bool> ret{false};
    std::thread s([&] {
        tp.suspend_processing_unit_direct(0);
        ret = true;
    });
    auto t0 = std::chrono::steady_clock::now();
    while (!ret && std::chrono::steady_clock::now() - t0 < 20s) std::this_thread::sleep_for(1ms);
    if (!ret)
    {
        std::printf("OUT HPQ %s returned=0 done_before_resume=0 of=%d states=%s all=suspend_did_not_return\n", id.c_str(), n, states().c_str());
        std::fflush(stdout);
        _exit(0);
    }
    s.join();
    ex::thread_pool_scheduler tps{&tp};
    auto hinted = ex::with_hint(tps, pika::execution::thread_schedule_hint(1));
    for (int i = 0; i < n; ++i)
        ex::execute(ex::with_priority(hinted, high ? pika::execution::thread_priority::high : pika::execution::thread_priority::normal),
            [&] { done.fetch_add(1); });
    t0 = std::chrono::steady_clock::now();
    while (done < n && std::chrono::steady_clock::now() - t0 < 2500ms) std::this_thread::sleep_for(1ms);
    int before = done.load();
    std::string st_before = states();
    long long ql0 = (long long) sched->get_queue_length(0), ql1 = (long long) sched->get_queue_length(1);
    tp.resume_processing_unit_direct(0);
    t0 = std::chrono::steady_clock::now();
    while (done < n && std::chrono::steady_clock::now() - t0 < 5s) std::this_thread::sleep_for(1ms);
    std::printf("OUT HPQ %s returned=1 done_before_resume=%d of=%d states=%s all=1 done_after_resume=%d queue_length_w0=%lld queue_length_w1=%lld\n",
        id.c_str(), before, n, st_before.c_str(), done.load(), ql0, ql1);
    std::fflush(stdout);
    pika::finalize();
    int rc = pika::stop();
    std::printf("DONE rc=%d\n", rc);
    std::fflush(stdout);
    return 0;
}
