// harness/c01_trace.cpp — C01/C02 TRACE harness on the real runtime (see common/c01_sched.hpp).
// usage: c01_trace <seed> <policy> <threads> <ncases> <mode: c01|guard|c02> [perturb 0..2]
//   c01   fan-out trees, chains, mutex/cv/latch suspension, direct suspend/resume pairs,
//         external submitters                      (all monitors + queue discipline + chains)
//   guard duplicate handles are injected through scheduler_base::schedule_thread (what yield_to
//         does): the tagged CAS of switch_status is the only line of defence
//                                                  (single-runner monitors + chains)
//   c02   wake-ups racing with suspension: direct set_thread_state pairs, cv and latch with
//         wakers on other workers and on plain OS threads, heavier perturbation of the
//         windows, quiescence watchdog; replays the phase-scoped wake-up witness
#include "common/c01_sched.hpp"

using namespace vt;

static int setup_tree(std::shared_ptr<Case> c, Rng& g, bool ext_sub, std::vector<std::thread>& ths)
{
    c->kind = ext_sub ? "tree+extsub" : "tree";
    auto t = std::make_shared<Tree>();
    int roots = 1 + g.below(3);
    std::vector<int> rootidx;
    int maxk = 40 + g.below(80);
    for (int r = 0; r < roots; ++r)
    {
        int idx = int(t->n.size());
        t->n.push_back(Node{});
        rootidx.push_back(idx);
        gen_tree(g, *t, idx, 0, 2 + g.below(3), maxk);
    }
    int ktree = int(t->n.size());
    int extra = ext_sub ? 30 : 0;
    c->init(ktree + extra);
    c->latches.resize(ktree);
    for (int i = 0; i < ktree; ++i)
        if (t->n[i].waitkids) c->latches[i] = std::make_unique<pika::latch>(std::ptrdiff_t(t->n[i].kids.size()));
    if (ext_sub)
    {
        for (int e = 0; e < 2; ++e)
            ths.emplace_back([c, ktree, e] {
                for (int k = 0; k < 15; ++k)
                {
                    int i = ktree + e * 15 + k;
                    int ny = (k * 7 + e) % 3;
                    spawn(
                        [c, i, ny] {
                            Begin b(c.get(), i);
                            for (int y = 0; y < ny; ++y) blocking(b, [] { yield_now(); });
                        },
                        k, 0);
                }
            });
    }
    for (int r : rootidx) spawn([c, t, r] { tree_body(c, t, r); }, t->n[r].prio, t->n[r].stack);
    return c->K;
}


static bool settle(Runner& R)
{
    auto t0 = std::chrono::steady_clock::now();
    for (;;)
    {
        if (R.pool()->get_thread_count_unknown(std::size_t(-1), false) == 0) return true;
        std::this_thread::sleep_for(std::chrono::microseconds(200));
        if (std::chrono::duration<double>(std::chrono::steady_clock::now() - t0).count() > 2.0) return false;
    }
}

int main(int argc, char** argv)
{
    std::uint64_t seed = argc > 1 ? std::strtoull(argv[1], nullptr, 10) : 1;
    std::string policy = argc > 2 ? argv[2] : "local-priority-fifo";
    int threads = argc > 3 ? std::atoi(argv[3]) : 2;
    int ncases = argc > 4 ? std::atoi(argv[4]) : 10;
    std::string mode = argc > 5 ? argv[5] : "c01";
    g_perturb = argc > 6 ? std::atoi(argv[6]) : 2;
    g_seed = seed;
    g_c02 = (mode == "c02");
    setvbuf(stdout, nullptr, _IOLBF, 0);

    std::string a1 = "--pika:threads=" + std::to_string(threads);
    std::string a2 = "--pika:scheduler=" + policy;
    char* av[] = {argv[0], a1.data(), a2.data(), nullptr};
    pika::verif::hook.store(&vt::hookfn, std::memory_order_release);
    pika::start(3, av);

    Runner R;
    R.threads = threads;
    R.policy = policy;
    R.seed = seed;
    Rng g(seed * 1315423911ull + std::hash<std::string>{}(policy) % 1000 + threads * 17 + (mode == "c02" ? 5 : 0));
    int rc = 0;
    std::printf("INFO 0 start mode=%s policy=%s threads=%d seed=%llu perturb=%d\n", mode.c_str(), policy.c_str(), threads,
        (unsigned long long) seed, g_perturb);
    // drop whatever start-up logged
    {
        settle(R);
        std::vector<Rec> tmp;
        drain(tmp);
    }
    for (int id = 1; id <= ncases && rc == 0; ++id)
    {
        auto c = std::make_shared<Case>();
        c->id = id;
        auto tc0 = std::chrono::steady_clock::now();
        bool check_queue = true;
        int expected = 0;
        std::vector<std::thread> ths;
        if (mode == "guard")
        {
            check_queue = false;
            c->kind = "dup_inject";
            int K = 6 + g.below(10);
            int rounds = 20 + g.below(40);
            c->init(K);
            expected = K;
            for (int i = 0; i < K; ++i)
                spawn(
                    [c, i, rounds] {
                        Begin b(c.get(), i);
                        c->ids[i] = thread_id_ref_type(get_self_id());
                        c->idready[i].store(1, std::memory_order_release);
                        for (int r = 0; r < rounds; ++r)
                        {
                            spin(50 + (r * 37 + i * 11) % 200);
                            blocking(b, [] { yield_now(); });
                        }
                    },
                    0, 0);
            std::uint64_t iseed = g.next();
            ths.emplace_back([c, K, iseed] {
                Rng ig(iseed);
                long injected = 0;
                while (!c->stop_inject.load(std::memory_order_acquire) && injected < 4000)
                {
                    int i = ig.below(K);
                    if (c->idready[i].load(std::memory_order_acquire) && c->exited[i].load() == 0)
                    {
                        thread_id_ref_type copy = c->ids[i];
                        auto* td = get_thread_id_data(copy);
                        td->get_scheduler_base()->schedule_thread(
                            std::move(copy), ex::thread_schedule_hint(), true, ex::thread_priority::normal);
                        ++injected;
                    }
                    spin(200 + ig.below(2000));
                }
                c->wakeups_issued.store(injected);
            });
        }
        else
        {
            int kind;
            if (mode == "c02")
            {
                static int const kinds[] = {3, 3, 4, 5, 6, 3, 4};
                kind = kinds[g.below(7)];
            }
            else
            {
                static int const kinds[] = {0, 0, 0, 1, 2, 3, 4, 5, 0, 1};
                kind = kinds[g.below(10)];
            }
            if (kind == 0 || kind == 1) expected = setup_tree(c, g, kind == 1, ths);
            else if (kind == 2)
            {
                c->kind = "chain";
                int K = 20 + g.below(40);
                c->init(K);
                expected = K;
                std::uint64_t cs = g.next();
                struct Chain
                {
                    static void body(std::shared_ptr<Case> c, int i, std::uint64_t cs)
                    {
                        Begin b(c.get(), i);
                        std::uint64_t h = cs + std::uint64_t(i) * 0x9e3779b97f4a7c15ull;
                        h ^= h >> 29;
                        if ((h & 3) == 0) blocking(b, [] { yield_now(); });
                        if ((h & 12) == 4) blocking(b, [] { yield_boost(); });
                        if (i + 1 < c->K) spawn([c, i, cs] { body(c, i + 1, cs); }, int((h >> 8) & 3), int((h >> 12) % 7 == 0));
                    }
                };
                spawn([c, cs] { Chain::body(c, 0, cs); }, 0, 0);
            }
            else if (kind == 3)
            {
                // direct suspend/resume pairs: wakers are tasks or plain OS threads
                int P = 2 + g.below(5);
                int rounds = 3 + g.below(mode == "c02" ? 30 : 8);
                bool ext = g.chance(1, 2);
                c->kind = ext ? "pairs_ext" : "pairs_task";
                c->init(ext ? P : 2 * P);
                expected = c->K;
                // normal / high priority only: the wakers spin (yield) while they wait for the next
                // registration, which would starve a low-priority waiter for ever
                for (int i = 0; i < P; ++i) spawn([c, i, rounds] { waiter_body(c, i, rounds); }, i % 2, 0);
                for (int i = 0; i < P; ++i)
                {
                    if (ext) ths.emplace_back([c, i, rounds] { waker_loop(c, i, rounds, false); });
                    else
                        spawn(
                            [c, i, rounds, P] {
                                Begin b(c.get(), P + i);
                                b.seg_out();
                                waker_loop(c, i, rounds, true);
                                b.seg_in();
                            },
                            (i + 1) % 2, 0);
                }
            }
            else if (kind == 4)
            {
                // condition variable: waiters with a predicate, one notifier (task or OS thread)
                int W = 3 + g.below(8);
                bool ext = g.chance(1, 2);
                bool all = g.chance(1, 2);
                c->kind = std::string(ext ? "cv_ext" : "cv_task") + (all ? "_all" : "_one");
                c->init(ext ? W : W + 1);
                expected = c->K;
                for (int i = 0; i < W; ++i)
                    spawn(
                        [c, i] {
                            Begin b(c.get(), i);
                            blocking(b, [&] {
                                std::unique_lock<pika::concurrency::detail::spinlock> l(c->cvm);
                                c->reg[i].store(1);
                                c->cv.wait(l, [&] { return c->cv_flag; });
                            });
                        },
                        i, 0);
                auto notifier = [c, W, all](bool on_pika) {
                    // let some waiters block first (not required for correctness)
                    for (int spin_ = 0; spin_ < 200; ++spin_)
                    {
                        int r = 0;
                        for (int i = 0; i < W; ++i) r += c->reg[i].load();
                        if (r * 2 >= W) break;
                        if (on_pika) yield_now();
                        else std::this_thread::yield();
                    }
                    {
                        std::unique_lock<pika::concurrency::detail::spinlock> l(c->cvm);
                        c->cv_flag = true;
                    }
                    c->wakeups_issued.fetch_add(1);
                    if (all) c->cv.notify_all();
                    else
                        for (int i = 0; i < W; ++i) c->cv.notify_one();
                };
                if (ext) ths.emplace_back([notifier] { notifier(false); });
                else
                    spawn(
                        [c, W, notifier] {
                            Begin b(c.get(), W);
                            b.seg_out();
                            notifier(true);
                            b.seg_in();
                        },
                        1, 0);
            }
            else if (kind == 5)
            {
                // latch: waiters suspend, arrivals come from tasks and from OS threads
                int W = 2 + g.below(5);
                int A = 2 + g.below(6);
                c->kind = "latch_mixed";
                c->init(W + A);
                expected = c->K;
                c->latches.resize(1);
                c->latches[0] = std::make_unique<pika::latch>(std::ptrdiff_t(2 * A));
                for (int i = 0; i < W; ++i)
                    spawn(
                        [c, i] {
                            Begin b(c.get(), i);
                            blocking(b, [&] { c->latches[0]->wait(); });
                        },
                        i, 0);
                for (int i = 0; i < A; ++i)
                    spawn(
                        [c, i, W] {
                            Begin b(c.get(), W + i);
                            if (i % 2) blocking(b, [] { yield_now(); });
                            c->latches[0]->count_down(1);
                        },
                        i + 1, 0);
                ths.emplace_back([c, A] {
                    for (int i = 0; i < A; ++i)
                    {
                        spin(500);
                        c->latches[0]->count_down(1);
                    }
                });
            }
            else if (kind == 6)
            {
                // contended pika::mutex with yields inside the critical section
                int M = 3 + g.below(6);
                int rounds = 3 + g.below(8);
                c->kind = "mutex";
                c->init(M);
                expected = M;
                for (int i = 0; i < M; ++i)
                    spawn(
                        [c, i, rounds] {
                            Begin b(c.get(), i);
                            for (int r = 0; r < rounds; ++r)
                            {
                                blocking(b, [&] { c->mtx.lock(); });
                                long v = c->shared_plain;
                                if ((r + i) % 2) blocking(b, [] { yield_now(); });
                                c->shared_plain = v + 1;
                                c->mtx.unlock();
                                c->shared.fetch_add(1);
                            }
                        },
                        i, 0);
            }
        }
        bool ok = R.wait_done(*c, expected);
        if (!ok)
        {
            // tasks are lost: helper OS threads may spin for ever and the runtime cannot be shut
            // down; everything observed so far has been printed and flushed
            std::printf("SUMMARY mode=%s policy=%s threads=%d cases=%d tasks=%ld events=%ld chains=%ld monhits=%d rc=1\n",
                mode.c_str(), policy.c_str(), threads, id, R.total_tasks, R.total_events, R.total_chains,
                R.mon_hits + (R.inconclusive ? 0 : 1));
            std::fflush(stdout);
            _exit(R.inconclusive ? 4 : 3);
        }
        c->stop_inject.store(1, std::memory_order_release);
        for (auto& th : ths) th.join();
        double t_run = std::chrono::duration<double>(std::chrono::steady_clock::now() - tc0).count();
        c->ids.clear();    // drop our references: the thread objects can be recycled
        settle(R);
        double t_set = std::chrono::duration<double>(std::chrono::steady_clock::now() - tc0).count();
        R.analyse(*c, check_queue);
        double t_ana = std::chrono::duration<double>(std::chrono::steady_clock::now() - tc0).count();
        std::printf("TIME %d run=%.3f settle=%.3f analyse=%.3f\n", id, t_run, t_set - t_run, t_ana - t_set);
        c->ids.clear();
    }
    if (rc == 0 && mode == "c02")
    {
        // replay of the model's witness wakeup_is_phase_scoped_refuted on the real runtime:
        // a resume aimed at an ACTIVE, unregistered task wakes the suspension that ends that
        // phase although no wake-up was issued for it (helper task of set_thread_state)
        auto c = std::make_shared<Case>();
        c->id = ncases + 1;
        c->kind = "witness_phase_scoped";
        c->init(1);
        std::atomic<int> resumed{0};
        spawn(
            [c, &resumed] {
                Begin b(c.get(), 0);
                c->ids[0] = thread_id_ref_type(get_self_id());
                c->idready[0].store(1, std::memory_order_release);
                while (!resumed.load(std::memory_order_acquire)) spin(50);    // stays ACTIVE, never registers
                blocking(b, [] { pika::execution::this_thread::detail::suspend("verif-witness"); });
            },
            0, 0);
        while (!c->idready[0].load(std::memory_order_acquire)) std::this_thread::yield();
        pika::error_code ec(pika::throwmode::lightweight);
        set_thread_state(c->ids[0].noref(), thread_schedule_state::pending, thread_restart_state::signaled,
            ex::thread_priority::normal, true, ec);
        resumed.store(1, std::memory_order_release);
        auto t0 = std::chrono::steady_clock::now();
        bool woke = false;
        while (std::chrono::duration<double>(std::chrono::steady_clock::now() - t0).count() < 5.0)
        {
            if (c->done.load() == 1)
            {
                woke = true;
                break;
            }
            std::this_thread::sleep_for(std::chrono::microseconds(200));
        }
        std::printf("WITNESS phase_scoped_wakeup reproduced=%d\n", woke ? 1 : 0);
        if (!woke)
        {
            // not reproduced: wake the task for real so that the runtime can shut down
            set_thread_state(c->ids[0].noref(), thread_schedule_state::pending, thread_restart_state::signaled,
                ex::thread_priority::normal, true, ec);
            R.wait_done(*c, 1);
        }
        c->ids.clear();
        settle(R);
        R.analyse(*c, true);
    }
    std::printf("SUMMARY mode=%s policy=%s threads=%d cases=%d tasks=%ld events=%ld chains=%ld monhits=%d rc=%d\n", mode.c_str(),
        policy.c_str(), threads, ncases, R.total_tasks, R.total_events, R.total_chains, R.mon_hits, rc);
    std::fflush(stdout);
    if (rc != 0) _exit(3);    // the runtime cannot be shut down with lost tasks
    pika::finalize();
    pika::stop();
    return 0;
}
