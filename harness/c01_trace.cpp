// harness/c01_trace.cpp — C01/C02 TRACE harness on the real runtime (see common/c01_sched.hpp).
// usage: c01_trace <seed> <policy> <threads> <ncases> <mode: c01|guard|c02> [perturb 0..2]
//   c01   fan-out trees, chains, mutex/cv/latch suspension, direct suspend/resume pairs,
//         external submitters                      (all monitors + queue discipline + chains)
//   guard duplicate handles are injected through scheduler_base::schedule_thread (what yield_to
//         does): the tagged CAS of switch_status is the only line of defence
//                                                  (single-runner monitors + chains)
//   c02   wake-ups racing with suspension: direct set_thread_state pairs, cv and latch with
//         wakers on other workers and on plain OS threads, heavier perturbation of the
//         windows, quiescence watchdog; replays the phase-scoped wake-up witness
#include "common/c01_sched.hpp"

using namespace vt;

static int setup_tree(std::shared_ptr<Case> c, Rng& g, bool ext_sub, std::vector<std::thread>& ths)
{
    c->kind = ext_sub ? "tree+extsub" : "tree";
    auto t = std::make_shared<Tree>();
    int roots = 1 + g.below(3);
    std::vector<int> rootidx;
    int maxk = 40 + g.below(80);
    for (int r = 0; r < roots; ++r)
    {
        int idx = int(t->n.size());
        t->n.push_back(Node{});
        rootidx.push_back(idx);
        gen_tree(g, *t, idx, 0, 2 + g.below(3), maxk);
    }
    int ktree = int(t->n.size());
    int extra = ext_sub ? 30 : 0;
    c->init(ktree + extra);
    c->latches.resize(ktree);
    for (int i = 0; i < ktree; ++i)
        if (t->n[i].waitkids) c->latches[i] = std::make_unique<pika::latch>(std::ptrdiff_t(t->n[i].kids.size()));
    if (ext_sub)
    {
        for (int e = 0; e < 2; ++e)
            ths.emplace_back([c, ktree, e] {
                for (int k = 0; k < 15; ++k)
                {
                    int i = ktree + e * 15 + k;
                    int ny = (k * 7 + e) % 3;
                    spawn(
                        [c, i, ny] {
                            Begin b(c.get(), i);
                            for (int y = 0; y < ny; ++y) blocking(b, [] { yield_now(); });
                        },
                        k, 0);
                }
            });
    }
    for (int r : rootidx) spawn([c, t, r] { tree_body(c, t, r); }, t->n[r].prio, t->n[r].stack);
    return c->K;
}


// ---------------------------------------------------------------------------------------------
// C02, wake-ups after a restart with a reason other than `signaled`.
// T target tasks block in a wait of facility 1 (semaphore acquire / cv wait / mutex lock) whose
// matching wake-up is never issued.  A driver (plain OS thread) waits until the target's state
// word says `suspended` (nobody else can wake it, so it stays suspended until the driver acts:
// the interruption is never requested while the target is active, in particular never while it
// is inside this_thread::yield(), which is noexcept) and interrupts it: set_thread_state(pending,
// abort).  The target catches pika::thread_interrupted and then — in the same run of its body —
// blocks on facility 2 (semaphore / cv with predicate / mutex / latch).  The driver issues the
// matching wake-up of facility 2 (itself, or through a waker task on a worker), either at once
// (racing with the suspension) or after it has seen the target suspended.  Monitor: every target
// finishes (ledger), bounded: quiescence watchdog and the "marked active, on no worker" watch of
// Runner::wait_done.  All state-word chains of the case go through the acceptor.
struct Intr
{
    pika::counting_semaphore<> sem1{0};    // never released
    pika::condition_variable_any cv1;      // never notified
    pika::concurrency::detail::spinlock cv1m;
    pika::mutex m1;    // held by the holder task until every target is done
    pika::counting_semaphore<> sem2{0};
    pika::condition_variable_any cv2;
    pika::concurrency::detail::spinlock cv2m;
    std::vector<int> cv2_flag;
    pika::mutex m2;    // held by the holder task until the driver asks for its release
    std::vector<std::unique_ptr<pika::latch>> l2;
    std::vector<std::unique_ptr<pika::counting_semaphore<>>> go;    // driver -> waker task i
    pika::counting_semaphore<> rel_m2{0}, rel_m1{0};
    std::atomic<int> caught{0}, unexpected_return{0}, targets_done{0};
    std::vector<int> f1, f2;
    int T = 0;
};

static void intr_wake(std::shared_ptr<Case> c, std::shared_ptr<Intr> S, int i)
{
    c->flag[i].fetch_add(1, std::memory_order_acq_rel);    // flag = wake-ups issued for the task; now the one of facility 2
    c->wakeups_issued.fetch_add(1);
    switch (S->f2[std::size_t(i)])
    {
    case 0: S->sem2.release(1); break;
    case 1:
    {
        {
            std::unique_lock<pika::concurrency::detail::spinlock> l(S->cv2m);
            S->cv2_flag[std::size_t(i)] = 1;
        }
        S->cv2.notify_all();
        break;
    }
    case 2: break;    // the mutex is released once, by the holder (see the driver)
    default: S->l2[std::size_t(i)]->count_down(1); break;
    }
}

static int setup_intr(std::shared_ptr<Case> c, Rng& g, std::vector<std::thread>& ths)
{
    auto S = std::make_shared<Intr>();
    int T = 2 + g.below(5);
    S->T = T;
    bool waker_tasks = g.chance(1, 2);
    bool any_mutex = false;
    std::string sig;
    for (int i = 0; i < T; ++i)
    {
        S->f1.push_back(g.below(3));
        S->f2.push_back(g.below(4));
        any_mutex = any_mutex || S->f1.back() == 2 || S->f2.back() == 2;
        S->l2.push_back(std::make_unique<pika::latch>(std::ptrdiff_t(1)));
        S->go.push_back(std::make_unique<pika::counting_semaphore<>>(0));
        static char const* n1[] = {"sem", "cv", "mutex"};
        static char const* n2[] = {"sem", "cv", "mutex", "latch"};
        sig += std::string(i ? "," : "") + n1[S->f1.back()] + ">" + n2[S->f2.back()];
    }
    S->cv2_flag.assign(std::size_t(T), 0);
    // tasks: targets 0..T-1, waker tasks T..2T-1 (optional), holder (optional) last
    int K = T + (waker_tasks ? T : 0) + (any_mutex ? 1 : 0);
    c->kind = std::string("after_interrupted_wait+") + (waker_tasks ? "wtask" : "wext");
    c->init(K);
    std::printf("INFO %d after_interrupted_wait targets=%d wakers=%s facilities=%s\n", c->id, T, waker_tasks ? "tasks" : "os-thread",
        sig.c_str());
    int holder = any_mutex ? K - 1 : -1;
    auto spawn_targets = [c, S, T] {
        for (int i = 0; i < T; ++i)
            spawn(
                [c, S, i] {
                    Begin b(c.get(), i);
                    c->ids[i] = thread_id_ref_type(get_self_id());
                    c->idready[i].store(1, std::memory_order_release);
                    bool caught = false;
                    b.seg_out();
                    try
                    {
                        c->reg[i].store(1, std::memory_order_release);    // about to block on facility 1
                        switch (S->f1[std::size_t(i)])
                        {
                        case 0: S->sem1.acquire(); break;
                        case 1:
                        {
                            std::unique_lock<pika::concurrency::detail::spinlock> l(S->cv1m);
                            S->cv1.wait(l, [] { return false; });
                            break;
                        }
                        default:
                            S->m1.lock();
                            S->m1.unlock();
                            break;
                        }
                    }
                    catch (pika::thread_interrupted const&)
                    {
                        caught = true;
                    }
                    b.seg_in();
                    if (caught) S->caught.fetch_add(1);
                    else S->unexpected_return.fetch_add(1);
                    c->reg[i].store(2, std::memory_order_release);    // about to block on facility 2
                    blocking(b, [&] {
                        switch (S->f2[std::size_t(i)])
                        {
                        case 0: S->sem2.acquire(); break;
                        case 1:
                        {
                            std::unique_lock<pika::concurrency::detail::spinlock> l(S->cv2m);
                            S->cv2.wait(l, [&] { return S->cv2_flag[std::size_t(i)] != 0; });
                            break;
                        }
                        case 2:
                            S->m2.lock();
                            S->m2.unlock();
                            break;
                        default: S->l2[std::size_t(i)]->wait(); break;
                        }
                    });
                    c->reg[i].store(3, std::memory_order_release);
                    S->targets_done.fetch_add(1);
                },
                i % 2, 0);
    };
    if (any_mutex)
        spawn(
            [c, S, holder, spawn_targets] {
                Begin b(c.get(), holder);
                blocking(b, [&] { S->m1.lock(); });
                blocking(b, [&] { S->m2.lock(); });
                spawn_targets();    // the targets are created once both mutexes are held
                blocking(b, [&] { S->rel_m2.acquire(); });
                S->m2.unlock();
                blocking(b, [&] { S->rel_m1.acquire(); });
                S->m1.unlock();
            },
            1, 0);
    else spawn_targets();
    if (waker_tasks)
        for (int i = 0; i < T; ++i)
            spawn(
                [c, S, i, T] {
                    Begin b(c.get(), T + i);
                    blocking(b, [&] { S->go[std::size_t(i)]->acquire(); });
                    b.seg_out();
                    intr_wake(c, S, i);
                    b.seg_in();
                },
                (i + 1) % 2, 0);
    std::uint64_t ds = g.next();
    ths.emplace_back([c, S, T, waker_tasks, any_mutex, ds] {
        Rng dg(ds);
        auto stopped = [&] { return c->stop_inject.load(std::memory_order_acquire) != 0; };
        auto word_st = [&](int i) { return int(get_thread_id_data(c->ids[std::size_t(i)])->get_state().state()); };
        int const ST_SUSP = int(thread_schedule_state::suspended);
        std::vector<int> order;
        for (int i = 0; i < T; ++i) order.push_back(i);
        for (int i = T - 1; i > 0; --i) std::swap(order[std::size_t(i)], order[std::size_t(dg.below(i + 1))]);
        // phase A: interrupt every target while it is suspended in facility 1
        for (int i : order)
        {
            while (!stopped() &&
                !(c->idready[i].load(std::memory_order_acquire) && c->reg[i].load(std::memory_order_acquire) >= 1 &&
                    word_st(i) == ST_SUSP))
                std::this_thread::yield();
            if (stopped()) return;
            if (dg.chance(1, 3)) spin(dg.below(3000));
            pika::error_code ec(pika::throwmode::lightweight);
            c->flag[i].fetch_add(1, std::memory_order_acq_rel);    // a wake-up with restart reason `abort`
            c->wakeups_issued.fetch_add(1);
            interrupt_thread(c->ids[std::size_t(i)].noref(), true, ec);
        }
        // phase B: the matching wake-up of facility 2, racing with the second suspension or after it
        for (int i = T - 1; i > 0; --i) std::swap(order[std::size_t(i)], order[std::size_t(dg.below(i + 1))]);
        bool m2_released = false;
        for (int i : order)
        {
            while (!stopped() && c->reg[i].load(std::memory_order_acquire) < 2) std::this_thread::yield();
            if (stopped()) return;
            if (dg.chance(1, 2))
            {
                // late wake-up: give the target up to ~2 ms to get suspended (not required)
                auto t0 = std::chrono::steady_clock::now();
                while (word_st(i) != ST_SUSP &&
                    std::chrono::duration<double>(std::chrono::steady_clock::now() - t0).count() < 0.002)
                    std::this_thread::yield();
            }
            else if (dg.chance(1, 2)) spin(dg.below(2000));
            if (waker_tasks) S->go[std::size_t(i)]->release(1);
            else intr_wake(c, S, i);
            if (S->f2[std::size_t(i)] == 2 && !m2_released)
            {
                m2_released = true;
                S->rel_m2.release(1);    // the holder unlocks m2: wake-up of the first waiter; each waiter unlocks in turn
            }
        }
        if (any_mutex && !m2_released) S->rel_m2.release(1);
        while (!stopped() && S->targets_done.load() < T) std::this_thread::yield();
        if (any_mutex) S->rel_m1.release(1);
        std::printf("INTR %d targets=%d interrupted_in_wait=%d wait_returned_without_exception=%d resumed_after_second_wait=%d\n", c->id, T,
            S->caught.load(), S->unexpected_return.load(), S->targets_done.load());
    });
    return K;
}

static bool settle(Runner& R)
{
    auto t0 = std::chrono::steady_clock::now();
    for (;;)
    {
        if (R.pool()->get_thread_count_unknown(std::size_t(-1), false) == 0) return true;
        std::this_thread::sleep_for(std::chrono::microseconds(200));
        if (std::chrono::duration<double>(std::chrono::steady_clock::now() - t0).count() > 2.0) return false;
    }
}

int main(int argc, char** argv)
{
    std::uint64_t seed = argc > 1 ? std::strtoull(argv[1], nullptr, 10) : 1;
    std::string policy = argc > 2 ? argv[2] : "local-priority-fifo";
    int threads = argc > 3 ? std::atoi(argv[3]) : 2;
    int ncases = argc > 4 ? std::atoi(argv[4]) : 10;
    std::string mode = argc > 5 ? argv[5] : "c01";
    g_perturb = argc > 6 ? std::atoi(argv[6]) : 2;
    g_seed = seed;
    g_c02 = (mode == "c02");
    setvbuf(stdout, nullptr, _IOLBF, 0);

    std::string a1 = "--pika:threads=" + std::to_string(threads);
    std::string a2 = "--pika:scheduler=" + policy;
    char* av[] = {argv[0], a1.data(), a2.data(), nullptr};
    pika::verif::hook.store(&vt::hookfn, std::memory_order_release);
    pika::start(3, av);

    Runner R;
    R.threads = threads;
    R.policy = policy;
    R.seed = seed;
    Rng g(seed * 1315423911ull + std::hash<std::string>{}(policy) % 1000 + threads * 17 + (mode == "c02" ? 5 : 0));
    int rc = 0;
    std::printf("INFO 0 start mode=%s policy=%s threads=%d seed=%llu perturb=%d\n", mode.c_str(), policy.c_str(), threads,
        (unsigned long long) seed, g_perturb);
    // drop whatever start-up logged
    {
        settle(R);
        std::vector<Rec> tmp;
        drain(tmp);
    }
    for (int id = 1; id <= ncases && rc == 0; ++id)
    {
        auto c = std::make_shared<Case>();
        c->id = id;
        auto tc0 = std::chrono::steady_clock::now();
        bool check_queue = true;
        int expected = 0;
        std::vector<std::thread> ths;
        if (mode == "guard")
        {
            check_queue = false;
            c->kind = "dup_inject";
            int K = 6 + g.below(10);
            int rounds = 20 + g.below(40);
            c->init(K);
            expected = K;
            for (int i = 0; i < K; ++i)
                spawn(
                    [c, i, rounds] {
                        Begin b(c.get(), i);
                        c->ids[i] = thread_id_ref_type(get_self_id());
                        c->idready[i].store(1, std::memory_order_release);
                        for (int r = 0; r < rounds; ++r)
                        {
                            spin(50 + (r * 37 + i * 11) % 200);
                            blocking(b, [] { yield_now(); });
                        }
                    },
                    0, 0);
            std::uint64_t iseed = g.next();
            ths.emplace_back([c, K, iseed] {
                Rng ig(iseed);
                long injected = 0;
                while (!c->stop_inject.load(std::memory_order_acquire) && injected < 4000)
                {
                    int i = ig.below(K);
                    if (c->idready[i].load(std::memory_order_acquire) && c->exited[i].load() == 0)
                    {
                        thread_id_ref_type copy = c->ids[i];
                        auto* td = get_thread_id_data(copy);
                        td->get_scheduler_base()->schedule_thread(
                            std::move(copy), ex::thread_schedule_hint(), true, ex::thread_priority::normal);
                        ++injected;
                    }
                    spin(200 + ig.below(2000));
                }
                c->wakeups_issued.store(injected);
            });
        }
        else
        {
            int kind;
            if (mode == "c02")
            {
                static int const kinds[] = {3, 3, 4, 5, 6, 3, 4};
                kind = kinds[g.below(7)];
                if (id % 5 == 0) kind = 7;    // wake-ups after an interrupted wait: every 5th case
            }
            else
            {
                static int const kinds[] = {0, 0, 0, 1, 2, 3, 4, 5, 0, 1};
                kind = kinds[g.below(10)];
            }
            if (kind == 0 || kind == 1) expected = setup_tree(c, g, kind == 1, ths);
            else if (kind == 7) expected = setup_intr(c, g, ths);
            else if (kind == 2)
            {
                c->kind = "chain";
                int K = 20 + g.below(40);
                c->init(K);
                expected = K;
                std::uint64_t cs = g.next();
                struct Chain
                {
                    static void body(std::shared_ptr<Case> c, int i, std::uint64_t cs)
                    {
                        Begin b(c.get(), i);
                        std::uint64_t h = cs + std::uint64_t(i) * 0x9e3779b97f4a7c15ull;
                        h ^= h >> 29;
                        if ((h & 3) == 0) blocking(b, [] { yield_now(); });
                        if ((h & 12) == 4) blocking(b, [] { yield_boost(); });
                        if (i + 1 < c->K) spawn([c, i, cs] { body(c, i + 1, cs); }, int((h >> 8) & 3), int((h >> 12) % 7 == 0));
                    }
                };
                spawn([c, cs] { Chain::body(c, 0, cs); }, 0, 0);
            }
            else if (kind == 3)
            {
                // direct suspend/resume pairs: wakers are tasks or plain OS threads
                int P = 2 + g.below(5);
                int rounds = 3 + g.below(mode == "c02" ? 30 : 8);
                bool ext = g.chance(1, 2);
                c->kind = ext ? "pairs_ext" : "pairs_task";
                c->init(ext ? P : 2 * P);
                expected = c->K;
                // normal / high priority only: the wakers spin (yield) while they wait for the next
                // registration, which would starve a low-priority waiter for ever
                for (int i = 0; i < P; ++i) spawn([c, i, rounds] { waiter_body(c, i, rounds); }, i % 2, 0);
                for (int i = 0; i < P; ++i)
                {
                    if (ext) ths.emplace_back([c, i, rounds] { waker_loop(c, i, rounds, false); });
                    else
                        spawn(
                            [c, i, rounds, P] {
                                Begin b(c.get(), P + i);
                                b.seg_out();
                                waker_loop(c, i, rounds, true);
                                b.seg_in();
                            },
                            (i + 1) % 2, 0);
                }
            }
            else if (kind == 4)
            {
                // condition variable: waiters with a predicate, one notifier (task or OS thread)
                int W = 3 + g.below(8);
                bool ext = g.chance(1, 2);
                bool all = g.chance(1, 2);
                c->kind = std::string(ext ? "cv_ext" : "cv_task") + (all ? "_all" : "_one");
                c->init(ext ? W : W + 1);
                expected = c->K;
                for (int i = 0; i < W; ++i)
                    spawn(
                        [c, i] {
                            Begin b(c.get(), i);
                            blocking(b, [&] {
                                std::unique_lock<pika::concurrency::detail::spinlock> l(c->cvm);
                                c->reg[i].store(1);
                                c->cv.wait(l, [&] { return c->cv_flag; });
                            });
                        },
                        i, 0);
                auto notifier = [c, W, all](bool on_pika) {
                    // let some waiters block first (not required for correctness)
                    for (int spin_ = 0; spin_ < 200; ++spin_)
                    {
                        int r = 0;
                        for (int i = 0; i < W; ++i) r += c->reg[i].load();
                        if (r * 2 >= W) break;
                        if (on_pika) yield_now();
                        else std::this_thread::yield();
                    }
                    {
                        std::unique_lock<pika::concurrency::detail::spinlock> l(c->cvm);
                        c->cv_flag = true;
                    }
                    c->wakeups_issued.fetch_add(1);
                    if (all) c->cv.notify_all();
                    else
                        for (int i = 0; i < W; ++i) c->cv.notify_one();
                };
                if (ext) ths.emplace_back([notifier] { notifier(false); });
                else
                    spawn(
                        [c, W, notifier] {
                            Begin b(c.get(), W);
                            b.seg_out();
                            notifier(true);
                            b.seg_in();
                        },
                        1, 0);
            }
            else if (kind == 5)
            {
                // latch: waiters suspend, arrivals come from tasks and from OS threads
                int W = 2 + g.below(5);
                int A = 2 + g.below(6);
                c->kind = "latch_mixed";
                c->init(W + A);
                expected = c->K;
                c->latches.resize(1);
                c->latches[0] = std::make_unique<pika::latch>(std::ptrdiff_t(2 * A));
                for (int i = 0; i < W; ++i)
                    spawn(
                        [c, i] {
                            Begin b(c.get(), i);
                            blocking(b, [&] { c->latches[0]->wait(); });
                        },
                        i, 0);
                for (int i = 0; i < A; ++i)
                    spawn(
                        [c, i, W] {
                            Begin b(c.get(), W + i);
                            if (i % 2) blocking(b, [] { yield_now(); });
                            c->latches[0]->count_down(1);
                        },
                        i + 1, 0);
                ths.emplace_back([c, A] {
                    for (int i = 0; i < A; ++i)
                    {
                        spin(500);
                        c->latches[0]->count_down(1);
                    }
                });
            }
            else if (kind == 6)
            {
                // contended pika::mutex with yields inside the critical section
                int M = 3 + g.below(6);
                int rounds = 3 + g.below(8);
                c->kind = "mutex";
                c->init(M);
                expected = M;
                for (int i = 0; i < M; ++i)
                    spawn(
                        [c, i, rounds] {
                            Begin b(c.get(), i);
                            for (int r = 0; r < rounds; ++r)
                            {
                                blocking(b, [&] { c->mtx.lock(); });
                                long v = c->shared_plain;
                                if ((r + i) % 2) blocking(b, [] { yield_now(); });
                                c->shared_plain = v + 1;
                                c->mtx.unlock();
                                c->shared.fetch_add(1);
                            }
                        },
                        i, 0);
            }
        }
        bool ok = R.wait_done(*c, expected);
        if (!ok)
        {
            // tasks are lost: helper OS threads may spin for ever and the runtime cannot be shut
            // down; everything observed so far has been printed and flushed
            std::printf("SUMMARY mode=%s policy=%s threads=%d cases=%d tasks=%ld events=%ld chains=%ld monhits=%d rc=1\n",
                mode.c_str(), policy.c_str(), threads, id, R.total_tasks, R.total_events, R.total_chains,
                R.mon_hits + (R.inconclusive ? 0 : 1));
            std::fflush(stdout);
            _exit(R.inconclusive ? 4 : 3);
        }
        c->stop_inject.store(1, std::memory_order_release);
        for (auto& th : ths) th.join();
        double t_run = std::chrono::duration<double>(std::chrono::steady_clock::now() - tc0).count();
        c->ids.clear();    // drop our references: the thread objects can be recycled
        settle(R);
        double t_set = std::chrono::duration<double>(std::chrono::steady_clock::now() - tc0).count();
        R.analyse(*c, check_queue);
        double t_ana = std::chrono::duration<double>(std::chrono::steady_clock::now() - tc0).count();
        std::printf("TIME %d run=%.3f settle=%.3f analyse=%.3f\n", id, t_run, t_set - t_run, t_ana - t_set);
        c->ids.clear();
    }
    if (rc == 0 && mode == "c02")
    {
        // replay of the model's witness wakeup_is_phase_scoped_refuted on the real runtime:
        // a resume aimed at an ACTIVE, unregistered task wakes the suspension that ends that
        // phase although no wake-up was issued for it (helper task of set_thread_state)
        auto c = std::make_shared<Case>();
        c->id = ncases + 1;
        c->kind = "witness_phase_scoped";
        c->init(1);
        std::atomic<int> resumed{0};
        spawn(
            [c, &resumed] {
                Begin b(c.get(), 0);
                c->ids[0] = thread_id_ref_type(get_self_id());
                c->idready[0].store(1, std::memory_order_release);
                while (!resumed.load(std::memory_order_acquire)) spin(50);    // stays ACTIVE, never registers
                blocking(b, [] { pika::execution::this_thread::detail::suspend("verif-witness"); });
            },
            0, 0);
        while (!c->idready[0].load(std::memory_order_acquire)) std::this_thread::yield();
        pika::error_code ec(pika::throwmode::lightweight);
        set_thread_state(c->ids[0].noref(), thread_schedule_state::pending, thread_restart_state::signaled,
            ex::thread_priority::normal, true, ec);
        resumed.store(1, std::memory_order_release);
        auto t0 = std::chrono::steady_clock::now();
        bool woke = false;
        while (std::chrono::duration<double>(std::chrono::steady_clock::now() - t0).count() < 5.0)
        {
            if (c->done.load() == 1)
            {
                woke = true;
                break;
            }
            std::this_thread::sleep_for(std::chrono::microseconds(200));
        }
        std::printf("WITNESS phase_scoped_wakeup reproduced=%d\n", woke ? 1 : 0);
        if (!woke)
        {
            // not reproduced: wake the task for real so that the runtime can shut down
            set_thread_state(c->ids[0].noref(), thread_schedule_state::pending, thread_restart_state::signaled,
                ex::thread_priority::normal, true, ec);
            R.wait_done(*c, 1);
        }
        c->ids.clear();
        settle(R);
        R.analyse(*c, true);
    }
    std::printf("SUMMARY mode=%s policy=%s threads=%d cases=%d tasks=%ld events=%ld chains=%ld monhits=%d rc=%d\n", mode.c_str(),
        policy.c_str(), threads, ncases, R.total_tasks, R.total_events, R.total_chains, R.mon_hits, rc);
    std::fflush(stdout);
    if (rc != 0) _exit(3);    // the runtime cannot be shut down with lost tasks
    pika::finalize();
    pika::stop();
    return 0;
}
