// C03 LOCKSTEP harness: the REAL shared state of split / ensure_started / split_tuple (consumers
// racing the predecessor's completion) and the REAL join of when_all / when_all_vector (children
// completing on different threads), interleavings chosen by the controller at the
// PIKA_VERIF_POINT sites 301-305 / 311-315 / 321-325 / 331-332 / 341-342.  For each case:
//   IN  HO <id> <kind SP|ES|ST> <chan V|E|S> <consumers> <schedule>
//   OUT HO <id> sites=<..> sig=<per consumer count:result:by-thread | ...> order=<consumers in signalling order> led=<live>
//   IN  JN <id> <kind WA|WV> <n> <child completions> <schedule>
//   OUT JN <id> sites=<..> n=<signals> r=<result> by=<thread> led=<live>
// Runs in a forked child per batch so that an abort / hang of the real code is an observation.
#include "common/ctl.hpp"

#include "common/c03_util.hpp"

#include <pika/execution.hpp>

#include <chrono>
#include <csignal>
#include <cstring>
#include <optional>
#include <sys/mman.h>
#include <sys/wait.h>
#include <unistd.h>

using namespace c03;

// ---------------------------------------------------------------------- manually fired leaf
struct Manual
{
    std::atomic<bool> started{false};
    std::function<void()> fire;
};
struct mleaf_data
{
    Manual* m = nullptr;
    int chan = VAL;
    V vals;
    long e = 0;
};
struct mleaf : mleaf_data
{
    template <template <class...> class T, template <class...> class Var>
    using value_types = Var<T<V>>;
    template <template <class...> class Var>
    using error_types = Var<std::exception_ptr>;
    static constexpr bool sends_done = true;
    template <class R>
    struct op
    {
        R r;
        mleaf_data l;
        op(R&& r_, mleaf_data&& l_) : r(std::move(r_)), l(std::move(l_)) {}
        op(op&&) = delete;
        void start() & noexcept
        {
            l.m->fire = [this] {
                switch (l.chan)
                {
                case VAL: ex::set_value(std::move(r), std::move(l.vals)); break;
                case ERR: ex::set_error(std::move(r), leaf_exception(l.e)); break;
                default: ex::set_stopped(std::move(r)); break;
                }
            };
            l.m->started.store(true);
        }
    };
    template <class R>
    op<std::decay_t<R>> connect(R&& r) &&
    {
        return {std::decay_t<R>(std::forward<R>(r)), std::move(static_cast<mleaf_data&>(*this))};
    }
};
// ---------------------------------------------------------------------- observing receivers
static std::atomic<int> g_seq{0};
struct LObs
{
    std::atomic<int> n{0};
    std::string res;
    int by = -1, seq = -1;
    void rec(std::string r)
    {
        if (n.fetch_add(1) == 0)
        {
            res = std::move(r);
            by = vctl::t_id;
            seq = g_seq.fetch_add(1);
        }
    }
};
static void flat(std::ostringstream& o, bool& first, V const& v)
{
    for (auto const& p : v)
    {
        o << (first ? "" : ",") << p.v;
        first = false;
    }
}
static void flat(std::ostringstream& o, bool& first, std::vector<V> const& vv)
{
    for (auto const& v : vv) flat(o, first, v);
}
struct lrcv
{
    LObs* o;
    template <class... Ts>
    void set_value(Ts&&... ts) && noexcept
    {
        std::ostringstream s;
        s << "V:";
        bool first = true;
        (flat(s, first, ts), ...);
        o->rec(s.str());
    }
    void set_error(std::exception_ptr ep) && noexcept { o->rec("E:" + std::to_string(exn_id(ep))); }
    template <class E>
    void set_error(E&&) && noexcept { o->rec("E:?"); }
    void set_stopped() && noexcept { o->rec("S"); }
    constexpr ex::empty_env get_env() const noexcept { return {}; }
};

// ---------------------------------------------------------------------- the controller loop
struct Sched
{
    std::vector<int> sched, sites;
};
template <class Eligible>
static bool drive(vctl::Controller& ctl, vctl::Rng& rng, int base, Sched& s, Eligible eligible, std::vector<int> const* replay)
{
    size_t ri = 0;
    for (int guard = 0; guard < 10000; ++guard)
    {
        if (!ctl.quiesce(8000)) return false;
        auto p = ctl.parked();
        if (p.empty()) return true;
        std::vector<int> c;
        for (int t : p)
            if (eligible(t, ctl.site_of(t))) c.push_back(t);
        if (c.empty()) return false;    // parked threads but nobody may run: stuck
        int t;
        if (replay)
        {
            if (ri >= replay->size()) return false;
            t = (*replay)[ri++];
            bool ok = false;
            for (int x : c) ok = ok || x == t;
            if (!ok) return false;
        }
        else
        {
            t = c[rng.below(c.size())];
            if (!s.sched.empty() && rng.chance(1, 3))
                for (int x : c)
                    if (x == s.sched.back()) t = x;
        }
        s.sched.push_back(t);
        int st = ctl.site_of(t);
        s.sites.push_back(st == 0 ? 0 : st - base);
        ctl.release(t);
    }
    return false;
}

static std::string csv(std::vector<int> const& v)
{
    std::ostringstream o;
    for (size_t i = 0; i < v.size(); ++i) o << (i ? "," : "") << v[i];
    if (v.empty()) o << "-";
    return o.str();
}

static mleaf mk(Manual* m, char chan, std::vector<long> vals, long e)
{
    mleaf l;
    l.m = m;
    l.chan = chan == 'V' ? VAL : chan == 'E' ? ERR : STP;
    l.vals = mkV(vals);
    l.e = e;
    return l;
}

// ---------------------------------------------------------------------- hand-off cases
static void print_handoff(int id, char const* kind, char chan, int N, Sched const& s, std::vector<LObs>& obs, bool ok)
{
    std::ostringstream in, out;
    in << "IN HO " << id << " " << kind << " " << chan << " " << N << " " << csv(s.sched);
    out << "OUT HO " << id << " sites=" << csv(s.sites) << " sig=";
    std::vector<std::pair<int, int>> order;
    for (int i = 0; i < N; ++i)
    {
        out << (i ? "|" : "") << obs[i].n.load() << ":" << (obs[i].n.load() ? obs[i].res : "-") << ":" << obs[i].by;
        if (obs[i].n.load()) order.push_back({obs[i].seq, i + 1});
    }
    if (N == 0) out << "-";
    std::sort(order.begin(), order.end());
    out << " order=";
    for (size_t i = 0; i < order.size(); ++i) out << (i ? "," : "") << order[i].second;
    if (order.empty()) out << "-";
    out << " led=" << g_led.live() << (ok ? "" : " STUCK");
    std::printf("%s\n%s\n", in.str().c_str(), out.str().c_str());
    std::fflush(stdout);
}

static void case_handoff(int id, vctl::Rng& rng, std::vector<int> const* replay, int kind_, char chan_, int N_)
{
    g_led.reset();
    g_seq = 0;
    int kind = replay ? kind_ : (int) rng.below(3);    // 0 SP, 1 ES, 2 ST
    char chan = replay ? chan_ : "VES"[rng.below(3)];
    int N = replay ? N_ : (kind == 0 ? 1 + (int) rng.below(4) : kind == 1 ? 1 : 2 + (int) rng.below(2));
    char const* kname = kind == 0 ? "SP" : kind == 1 ? "ES" : "ST";
    int base = kind == 0 ? 300 : kind == 1 ? 310 : 320;
    Manual m;
    std::vector<LObs> obs(N);
    Sched s;
    bool ok = true;
    {
        vctl::Controller ctl(N + 1, base + 1, base + 5);
        auto eligible = [&](int t, int site) { return !(t == 0 && site == 0 && !m.started.load()); };
        auto pred = [&] {
            ctl.begin(0);
            m.fire();
            ctl.end();
        };
        std::vector<std::thread> th;
        if (kind == 0)
        {
            auto sp = ex::split(mk(&m, chan, {1, 2}, 105));
            using OS = decltype(ex::connect(sp, lrcv{nullptr}));
            std::vector<std::unique_ptr<OS>> os;
            for (int i = 0; i < N; ++i)
                os.emplace_back(new OS(pika::detail::with_result_of([&] { return ex::connect(sp, lrcv{&obs[i]}); })));
            th.emplace_back(pred);
            for (int i = 0; i < N; ++i)
                th.emplace_back([&, i] {
                    ctl.begin(i + 1);
                    ex::start(*os[i]);
                    ctl.end();
                });
            ok = drive(ctl, rng, base, s, eligible, replay);
            if (!ok) { print_handoff(id, kname, chan, N, s, obs, false); std::fflush(stdout); _exit(7); }
            for (auto& x : th) x.join();
        }
        else if (kind == 1)
        {
            auto es = ex::ensure_started(mk(&m, chan, {1, 2}, 105));
            auto os = ex::connect(std::move(es), lrcv{&obs[0]});
            th.emplace_back(pred);
            th.emplace_back([&] {
                ctl.begin(1);
                ex::start(os);
                ctl.end();
            });
            ok = drive(ctl, rng, base, s, eligible, replay);
            if (!ok) { print_handoff(id, kname, chan, N, s, obs, false); std::fflush(stdout); _exit(7); }
            for (auto& x : th) x.join();
        }
        else
        {
            auto run_tuple = [&](auto tupsender) {
                std::apply(
                    [&](auto&&... snd) {
                        int i = 0;
                        // braced initialisation: elements are evaluated left to right
                        std::tuple oss{std::unique_ptr<decltype(ex::connect(std::move(snd), lrcv{nullptr}))>(
                            new decltype(ex::connect(std::move(snd), lrcv{nullptr}))(pika::detail::with_result_of(
                                [&] { return ex::connect(std::move(snd), lrcv{&obs[i++]}); })))...};
                        th.emplace_back(pred);
                        int k = 0;
                        std::apply(
                            [&](auto&... o) {
                                ((th.emplace_back([&ctl, &o, kk = ++k] {
                                    ctl.begin(kk);
                                    ex::start(*o);
                                    ctl.end();
                                })),
                                    ...);
                            },
                            oss);
                        ok = drive(ctl, rng, base, s, eligible, replay);
                        if (!ok) { print_handoff(id, kname, chan, N, s, obs, false); std::fflush(stdout); _exit(7); }
                        for (auto& x : th) x.join();
                    },
                    std::move(tupsender));
            };
            if (N == 2)
                run_tuple(ex::split_tuple(mk(&m, chan, {1, 2}, 105) | ex::then([](V v) {
                    return std::tuple<V, V>(V(v.begin(), v.begin() + 1), V(v.begin() + 1, v.end()));
                })));
            else
                run_tuple(ex::split_tuple(mk(&m, chan, {1, 2}, 105) | ex::then([](V v) {
                    return std::tuple<V, V, V>(V(v.begin(), v.begin() + 1), V(v.begin() + 1, v.end()), V{});
                })));
        }
    }
    {
        std::lock_guard l(g_ep_m);
        g_leaf_eps.clear();
    }
    print_handoff(id, kname, chan, N, s, obs, ok);
}

// ---------------------------------------------------------------------- join cases
static void case_join(int id, vctl::Rng& rng, std::vector<int> const* replay, int kind_, std::string comps_)
{
    g_led.reset();
    g_seq = 0;
    int kind = replay ? kind_ : (int) rng.below(2);    // 0 WA, 1 WV
    int n = replay ? (int) comps_.size() : 1 + (int) rng.below(4);
    std::string comps = comps_;
    if (!replay)
    {
        comps.clear();
        int mode = (int) rng.below(3);    // mostly values / mixed / mostly failing
        for (int i = 0; i < n; ++i)
        {
            unsigned p = (unsigned) rng.below(10);
            comps.push_back(mode == 0 ? (p < 8 ? 'V' : p < 9 ? 'E' : 'S') : mode == 1 ? "VES"[p % 3] : (p < 2 ? 'V' : p < 6 ? 'E' : 'S'));
        }
    }
    char const* kname = kind == 0 ? "WA" : "WV";
    int base = kind == 0 ? 330 : 340;
    std::vector<Manual> m(n);
    LObs obs;
    Sched s;
    bool ok = true;
    auto leafi = [&](int i) { return mk(&m[i], comps[i], {10 * i + 1}, 100 + i); };
    auto go = [&](auto& os) {
        vctl::Controller ctl(n, base + 1, base + 2);
        ex::start(os);    // starts every child (manual leaves: nothing completes yet)
        std::vector<std::thread> th;
        for (int i = 0; i < n; ++i)
            th.emplace_back([&, i] {
                ctl.begin(i);
                m[i].fire();
                ctl.end();
            });
        ok = drive(ctl, rng, base, s, [](int, int) { return true; }, replay);
        if (ok)
            for (auto& x : th) x.join();
    };
    if (kind == 1)
    {
        std::vector<mleaf> v;
        for (int i = 0; i < n; ++i) v.push_back(leafi(i));
        auto os = ex::connect(ex::when_all_vector(std::move(v)), lrcv{&obs});
        go(os);
    }
    else
    {
        switch (n)
        {
        case 1: { auto os = ex::connect(ex::when_all(leafi(0)), lrcv{&obs}); go(os); break; }
        case 2: { auto os = ex::connect(ex::when_all(leafi(0), leafi(1)), lrcv{&obs}); go(os); break; }
        case 3: { auto os = ex::connect(ex::when_all(leafi(0), leafi(1), leafi(2)), lrcv{&obs}); go(os); break; }
        default: { auto os = ex::connect(ex::when_all(leafi(0), leafi(1), leafi(2), leafi(3)), lrcv{&obs}); go(os); break; }
        }
    }
    {
        std::lock_guard l(g_ep_m);
        g_leaf_eps.clear();
    }
    std::printf("IN JN %d %s %d %s %s\nOUT JN %d sites=%s n=%d r=%s by=%d led=%ld%s\n", id, kname, n, comps.c_str(),
        csv(s.sched).c_str(), id, csv(s.sites).c_str(), obs.n.load(), obs.n.load() ? obs.res.c_str() : "-", obs.by,
        g_led.live(), ok ? "" : " STUCK");
    std::fflush(stdout);
    if (!ok) _exit(7);
}

// ---------------------------------------------------------------------- lifetime of the shared state
// LIFE cases (Model/HandoffLife.v): the shared state of split / ensure_started / split_tuple is allocated
// through the adaptor's allocator argument on pages of its own; `deallocate` makes the pages inaccessible
// (nothing is reused), so every later access to a member of the freed shared state faults.  The handler
// records (thread, site the thread was released from), opens the pages again (the bytes of the destroyed
// object are still there, the run continues as it would on a not yet reused heap block) and the controller
// closes them before the next step.  The consumers' operation states hold the references: consumer i
// destroys its operation state inside the signal (oracle bit i set: what start_detached's receiver does)
// or in a later, separately scheduled step of its own thread (parked at pseudo-site 0 after start()).
//   IN  HL <id> <kind SP|ES|ST> <chan V|E|S> <consumers> <oracle bits, consumer 1 first> <schedule>
//   OUT HL <id> sites=<..> sig=<..> freed=<thread that released the last reference | -> bad=<thread.site,..|->
namespace life {
    static char* g_base = nullptr;
    static std::size_t g_len = 0;
    static volatile int g_freed = 0, g_freed_by = -1, g_nalloc = 0;
    static volatile int g_nbad = 0;
    static volatile int g_bad_t[64], g_bad_site[64];
    static vctl::Controller* g_ctl = nullptr;
    static int g_basesite = 0;

    template <class T>
    struct palloc
    {
        using value_type = T;
        palloc() = default;
        template <class U>
        palloc(palloc<U> const&) noexcept {}
        T* allocate(std::size_t n)
        {
            std::size_t len = ((n * sizeof(T) + 4095) / 4096) * 4096;
            void* p = mmap(nullptr, len, PROT_READ | PROT_WRITE, MAP_PRIVATE | MAP_ANONYMOUS, -1, 0);
            if (p == MAP_FAILED) std::abort();
            g_base = (char*) p;
            g_len = len;
            g_nalloc = g_nalloc + 1;
            return (T*) p;
        }
        void deallocate(T* p, std::size_t) noexcept
        {
            if ((char*) p != g_base) std::abort();
            g_freed_by = vctl::t_id;
            g_freed = 1;
            mprotect(g_base, g_len, PROT_NONE);
        }
        template <class U>
        bool operator==(palloc<U> const&) const noexcept { return true; }
        template <class U>
        bool operator!=(palloc<U> const&) const noexcept { return false; }
    };
    static void on_segv(int, siginfo_t* si, void*)
    {
        char* a = (char*) si->si_addr;
        if (g_freed && g_base && a >= g_base && a < g_base + g_len)
        {
            int t = vctl::t_id;
            int site = (t >= 0 && g_ctl) ? g_ctl->s[t].site : -1;
            int k = g_nbad;
            if (k < 64 && !(k > 0 && g_bad_t[k - 1] == t && g_bad_site[k - 1] == site))
            {
                g_bad_t[k] = t;
                g_bad_site[k] = site;
                g_nbad = k + 1;
            }
            mprotect(g_base, g_len, PROT_READ | PROT_WRITE);
            return;    // the faulting access is executed again and succeeds
        }
        signal(SIGSEGV, SIG_DFL);    // a genuine crash: fault again with the default action
    }
    static void install()
    {
        struct sigaction sa;
        std::memset(&sa, 0, sizeof sa);
        sa.sa_sigaction = on_segv;
        sa.sa_flags = SA_SIGINFO | SA_NODEFER;
        sigaction(SIGSEGV, &sa, nullptr);
    }
    static void reset(vctl::Controller* c, int base)
    {
        if (g_base) munmap(g_base, g_len);
        g_base = nullptr;
        g_len = 0;
        g_freed = 0;
        g_freed_by = -1;
        g_nalloc = 0;
        g_nbad = 0;
        g_ctl = c;
        g_basesite = base;
    }

    // receiver that records the signal and then (oracle) destroys its own operation state
    struct krcv
    {
        LObs* o;
        std::function<void()>* kill;
        void done(std::string s)
        {
            LObs* oo = o;
            std::function<void()>* k = kill;    // *this dies with the operation state
            oo->rec(std::move(s));
            if (k && *k) (*k)();
        }
        template <class... Ts>
        void set_value(Ts&&... ts) && noexcept
        {
            std::ostringstream s;
            s << "V:";
            bool first = true;
            (flat(s, first, ts), ...);
            done(s.str());
        }
        void set_error(std::exception_ptr ep) && noexcept { done("E:" + std::to_string(exn_id(ep))); }
        template <class E>
        void set_error(E&&) && noexcept { done("E:?"); }
        void set_stopped() && noexcept { done("S"); }
        constexpr ex::empty_env get_env() const noexcept { return {}; }
    };

    static bool drive_life(vctl::Controller& ctl, vctl::Rng& rng, int base, Sched& s, Manual& m, std::vector<LObs>& obs,
        std::vector<int> const* replay)
    {
        size_t ri = 0;
        for (int guard = 0; guard < 10000; ++guard)
        {
            if (!ctl.quiesce(8000)) return false;
            if (g_freed) mprotect(g_base, g_len, PROT_NONE);    // closed again before every step
            auto p = ctl.parked();
            if (p.empty()) return true;
            std::vector<int> c;
            for (int t : p)
            {
                int site = ctl.site_of(t);
                if (t == 0 && site == 0 && !m.started.load()) continue;
                // a consumer waiting to destroy its operation state: only after it was signalled
                if (t > 0 && site == base && obs[t - 1].n.load() == 0) continue;
                c.push_back(t);
            }
            if (c.empty()) return false;
            int t;
            if (replay)
            {
                if (ri >= replay->size()) return false;
                t = (*replay)[ri++];
                bool ok = false;
                for (int x : c) ok = ok || x == t;
                if (!ok) return false;
            }
            else
            {
                t = c[rng.below(c.size())];
                if (!s.sched.empty() && rng.chance(1, 3))
                    for (int x : c)
                        if (x == s.sched.back()) t = x;
            }
            s.sched.push_back(t);
            int st = ctl.site_of(t);
            s.sites.push_back(st == 0 ? 0 : st - base);
            ctl.release(t);
        }
        return false;
    }

    static void case_life(int id, vctl::Rng& rng, std::vector<int> const* replay, int kind_, char chan_, int N_, unsigned oracle_)
    {
        g_led.reset();
        g_seq = 0;
        int kind = replay ? kind_ : (int) rng.below(3);    // 0 SP, 1 ES, 2 ST
        char chan = replay ? chan_ : "VVES"[rng.below(4)];
        int N = replay ? N_ : (kind == 0 ? 1 + (int) rng.below(3) : kind == 1 ? 1 : 2 + (int) rng.below(2));
        unsigned mode = (unsigned) rng.below(4);
        unsigned oracle = replay ? oracle_ : mode == 0 ? 0u : mode == 1 ? ~0u : (unsigned) rng.next();
        oracle &= (1u << N) - 1;
        char const* kname = kind == 0 ? "SP" : kind == 1 ? "ES" : "ST";
        int base = kind == 0 ? 300 : kind == 1 ? 310 : 320;
        Manual m;
        std::vector<LObs> obs(N);
        std::vector<std::function<void()>> kills(N);    // destroy consumer i's operation state (once)
        Sched s;
        bool ok = true;
        auto report = [&] {
            std::ostringstream in, out;
            in << "IN HL " << id << " " << kname << " " << chan << " " << N << " ";
            for (int i = 0; i < N; ++i) in << ((oracle >> i) & 1u);
            in << " " << csv(s.sched);
            out << "OUT HL " << id << " sites=" << csv(s.sites) << " sig=";
            for (int i = 0; i < N; ++i)
                out << (i ? "|" : "") << obs[i].n.load() << ":" << (obs[i].n.load() ? obs[i].res : "-") << ":" << obs[i].by;
            out << " freed=";
            if (g_freed) out << g_freed_by; else out << "-";
            out << " bad=";
            for (int i = 0; i < g_nbad; ++i) out << (i ? "," : "") << g_bad_t[i] << "." << (g_bad_site[i] <= 0 ? 0 : g_bad_site[i] - base);
            if (g_nbad == 0) out << "-";
            out << " allocs=" << g_nalloc << (ok ? "" : " STUCK");
            std::printf("%s\n%s\n", in.str().c_str(), out.str().c_str());
            std::fflush(stdout);
        };
        {
            vctl::Controller ctl(N + 1, base + 1, base + 5);
            reset(&ctl, base);
            auto pred = [&] {
                ctl.begin(0);
                m.fire();
                ctl.end();
            };
            auto inside = [&](int i) { return ((oracle >> i) & 1u) != 0; };
            // consumer thread i+1: start(); unless the receiver destroys the operation state inside the signal,
            // the owner does it in a later step, once the consumer was signalled
            auto consumer = [&](int i, auto& osp) {
                ctl.begin(i + 1);
                ex::start(*osp);
                if (!inside(i))
                {
                    for (;;)
                    {
                        ctl.park(base, nullptr, 0, 0);
                        if (obs[i].n.load() > 0) break;
                    }
                    kills[i]();
                }
                ctl.end();
            };
            std::vector<std::thread> th;
            auto go = [&] {
                ok = drive_life(ctl, rng, base, s, m, obs, replay);
                if (!ok)
                {
                    report();
                    _exit(7);    // threads are still parked: leave without unwinding
                }
                for (auto& x : th) x.join();
            };
            if (kind == 0)
            {
                auto sp = std::optional(ex::split(mk(&m, chan, {1, 2}, 105), palloc<int>{}));
                using OS = decltype(ex::connect(*sp, krcv{nullptr, nullptr}));
                std::vector<std::unique_ptr<OS>> os;
                for (int i = 0; i < N; ++i)
                {
                    os.emplace_back(new OS(pika::detail::with_result_of([&] { return ex::connect(*sp, krcv{&obs[i], inside(i) ? &kills[i] : nullptr}); })));
                    kills[i] = [&os, i] { os[i].reset(); };
                }
                sp.reset();    // only the operation states (and the predecessor's receiver) hold references now
                th.emplace_back(pred);
                for (int i = 0; i < N; ++i) th.emplace_back([&, i] { consumer(i, os[i]); });
                go();
            }
            else if (kind == 1)
            {
                auto es = std::optional(ex::ensure_started(mk(&m, chan, {1, 2}, 105), palloc<int>{}));
                using OS = decltype(ex::connect(std::move(*es), krcv{nullptr, nullptr}));
                std::unique_ptr<OS> os(new OS(pika::detail::with_result_of([&] { return ex::connect(std::move(*es), krcv{&obs[0], inside(0) ? &kills[0] : nullptr}); })));
                kills[0] = [&os] { os.reset(); };
                es.reset();
                th.emplace_back(pred);
                th.emplace_back([&] { consumer(0, os); });
                go();
            }
            else
            {
                auto run_tuple = [&](auto tupsender) {
                    std::apply(
                        [&](auto&&... snd) {
                            int i = 0;
                            auto mkos = [&](auto&& sn) {
                                int j = i++;
                                using OS = decltype(ex::connect(std::move(sn), krcv{nullptr, nullptr}));
                                return std::unique_ptr<OS>(new OS(pika::detail::with_result_of(
                                    [&] { return ex::connect(std::move(sn), krcv{&obs[j], inside(j) ? &kills[j] : nullptr}); })));
                            };
                            std::tuple oss{mkos(std::move(snd))...};
                            int k = 0;
                            std::apply([&](auto&... o) { ((kills[k++] = [&o] { o.reset(); }), ...); }, oss);
                            th.emplace_back(pred);
                            int kk = 0;
                            std::apply([&](auto&... o) { ((th.emplace_back([&, q = kk++] { consumer(q, o); })), ...); }, oss);
                            go();
                        },
                        std::move(tupsender));
                };
                if (N == 2)
                    run_tuple(ex::split_tuple(mk(&m, chan, {1, 2}, 105) | ex::then([](V v) {
                        return std::tuple<V, V>(V(v.begin(), v.begin() + 1), V(v.begin() + 1, v.end()));
                    }), palloc<int>{}));
                else
                    run_tuple(ex::split_tuple(mk(&m, chan, {1, 2}, 105) | ex::then([](V v) {
                        return std::tuple<V, V, V>(V(v.begin(), v.begin() + 1), V(v.begin() + 1, v.end()), V{});
                    }), palloc<int>{}));
            }
            g_ctl = nullptr;
        }
        {
            std::lock_guard l(g_ep_m);
            g_leaf_eps.clear();
        }
        report();
    }
}    // namespace life

// ---------------------------------------------------------------------- real-concurrency stress
// "Nothing is signalled twice" includes the shared predecessor being STARTED twice when several
// consumers of one split() sender call start() truly concurrently: the start flag's test-and-set has no
// scheduling point inside, so the lock-step part cannot interleave it.  Here K in {2,3,4} consumers of one
// split sender are released from a spin barrier (persistent threads, swept offsets of 0..255 spin
// iterations) and call start() at the same instant; the predecessor is `leaf | then(f)` where the leaf
// counts its start() calls and f its invocations.  Modes: SPI — the leaf completes inline in start(),
// SPA — the leaf completes from one more racing thread (completion vs. add_continuation under real
// concurrency as well), ES — ensure_started (one consumer) whose start() races the predecessor's
// completion, STI / STA — the 2 or 3 element senders of one split_tuple (same start flag).  Monitor per trial: leaf started exactly once, f ran exactly once, every consumer got
// exactly one completion, by set_value, with the right value.  Runs in a forked child: a crash / hang
// of the real code is an observation (DIED ST ...).
//   c03_lock stress <seed> <trials> <budget_ms>
//   BAD ST <trial> mode=<m> K=<k> delays=<..> starts=<n> calls=<n> sig=<n:val:other|...>
//   SUM ST <mode> <K> <trials>      DONE ST trials=<n> ms=<elapsed>
namespace st {
    struct Counters
    {
        std::atomic<int> starts{0}, calls{0};
    };
    struct Gate
    {
        std::atomic<void*> op{nullptr};
        void (*fn)(void*) = nullptr;
    };
    template <bool Async>
    struct leaf
    {
        Counters* c;
        Gate* g;
        int v;
        bool strict;    // true: a second start() is only counted; false: it completes again, like just() would
        template <template <class...> class T, template <class...> class Var>
        using value_types = Var<T<int>>;
        template <template <class...> class Var>
        using error_types = Var<std::exception_ptr>;
        static constexpr bool sends_done = false;
        template <class R>
        struct op
        {
            R r;
            Counters* c;
            Gate* g;
            int v;
            bool strict;
            op(R&& r_, leaf const& l) : r(std::move(r_)), c(l.c), g(l.g), v(l.v), strict(l.strict) {}
            op(op&&) = delete;
            void start() & noexcept
            {
                // a second start() is counted (that is the violation); a strict leaf does not complete again, so
                // that the observation stays "started twice" instead of a crash somewhere downstream
                if (c->starts.fetch_add(1, std::memory_order_relaxed) != 0 && strict) return;
                if constexpr (Async)
                {
                    g->fn = [](void* p) {
                        auto* o = static_cast<op*>(p);
                        ex::set_value(std::move(o->r), int(o->v));
                    };
                    g->op.store(this, std::memory_order_release);
                }
                else
                    ex::set_value(std::move(r), int(v));
            }
        };
        template <class R>
        op<std::decay_t<R>> connect(R&& r) &&
        {
            return {std::decay_t<R>(std::forward<R>(r)), *this};
        }
    };
    struct Obs
    {
        std::atomic<int> n{0}, val{-1}, other{0};
    };
    struct rcv
    {
        Obs* o;
        void set_value(int const& v) && noexcept
        {
            o->val.store(v, std::memory_order_relaxed);
            o->n.fetch_add(1);
        }
        template <class E>
        void set_error(E&&) && noexcept
        {
            o->other.fetch_add(1);
            o->n.fetch_add(1);
        }
        void set_stopped() && noexcept
        {
            o->other.fetch_add(1);
            o->n.fetch_add(1);
        }
        constexpr ex::empty_env get_env() const noexcept { return {}; }
    };

    struct Task
    {
        void (*fn)(void*) = nullptr;
        void* arg = nullptr;
        int delay = 0;
    };
    inline void spin(int d)
    {
        for (volatile int i = 0; i < d; i = i + 1) {}
    }
    struct Pool
    {
        static constexpr int W = 4;
        struct alignas(64) Slot
        {
            std::atomic<std::uint64_t> done{0};
            Task t;
        };
        alignas(64) std::atomic<std::uint64_t> gen{0};
        Slot slot[W];
        std::thread th[W];
        void worker(int w)
        {
            std::uint64_t my = 0;
            for (;;)
            {
                std::uint64_t g;
                unsigned spins = 0;
                while ((g = gen.load(std::memory_order_acquire)) == my)
                    if (++spins > 20000) std::this_thread::yield();
                if (g == ~0ull) return;
                my = g;
                Slot& s = slot[w];
                if (s.t.fn)
                {
                    spin(s.t.delay);
                    s.t.fn(s.t.arg);
                }
                s.done.store(g, std::memory_order_release);
            }
        }
        void begin()
        {
            for (int w = 0; w < W; ++w) th[w] = std::thread([this, w] { worker(w); });
        }
        void end()
        {
            gen.store(~0ull, std::memory_order_release);
            for (int w = 0; w < W; ++w) th[w].join();
        }
        // tasks[0..n): one runs on the calling thread, the others on workers; all released by one store
        void run(std::uint64_t g, Task* tasks, int n, int mainidx)
        {
            int w = 0;
            for (int i = 0; i < n; ++i)
                if (i != mainidx) slot[w++].t = tasks[i];
            for (; w < W; ++w) slot[w].t = Task{};
            gen.store(g, std::memory_order_release);
            spin(tasks[mainidx].delay);
            tasks[mainidx].fn(tasks[mainidx].arg);
            for (w = 0; w < W; ++w)
            {
                unsigned spins = 0;
                while (slot[w].done.load(std::memory_order_acquire) != g)
                    if (++spins > 20000) std::this_thread::yield();
            }
        }
    };
    struct Shm
    {
        std::uint64_t cur;
        int mode, K;
        std::uint64_t per[5][5];
        std::uint64_t total;
    };
    static char const* const MODE[5] = {"SPI", "SPA", "ES", "STI", "STA"};

    static void fire(void* p)
    {
        Gate* g = static_cast<Gate*>(p);
        void* o;
        unsigned long spins = 0;
        while (!(o = g->op.load(std::memory_order_acquire)))
            if (++spins > 2000000000ul) return;    // never started: the consumers stay unsignalled (reported)
        g->fn(o);
    }
    template <class OS>
    static void start_os(void* p)
    {
        ex::start(*static_cast<OS*>(p));
    }
    static void verdict(std::uint64_t trial, int mode, int K, Task* tasks, int nt, Counters& c, Obs* obs, int want, int stride = 0)
    {
        bool bad = c.starts.load() != 1 || c.calls.load() != 1;
        for (int i = 0; i < K; ++i) bad = bad || obs[i].n.load() != 1 || obs[i].val.load() != want + i * stride || obs[i].other.load() != 0;
        if (!bad) return;
        std::ostringstream o;
        o << "BAD ST " << trial << " mode=" << MODE[mode] << " K=" << K << " delays=";
        for (int i = 0; i < nt; ++i) o << (i ? "," : "") << tasks[i].delay;
        o << " starts=" << c.starts.load() << " calls=" << c.calls.load() << " want=" << want << "+" << stride << "i sig=";
        for (int i = 0; i < K; ++i) o << (i ? "|" : "") << obs[i].n.load() << ":" << obs[i].val.load() << ":" << obs[i].other.load();
        std::printf("%s\n", o.str().c_str());
        std::fflush(stdout);
        _exit(9);    // the shared state may be corrupt: do not touch it again
    }
    static int sweep(vctl::Rng& rng) { return (int) rng.below(1ull << rng.below(9)); }

    template <bool Async>
    static void trial_split(Pool& P, std::uint64_t trial, int K, vctl::Rng& rng)
    {
        Counters c;
        Gate gate;
        Obs obs[4];
        int const v0 = (int) (trial & 0xffff), add = 7;
        Task tasks[5];
        int nt = 0;
        {
            auto sp = ex::split(leaf<Async>{&c, &gate, v0, (trial & 3) != 3} | ex::then([&c](int v) {
                c.calls.fetch_add(1, std::memory_order_relaxed);
                return v + 7;
            }));
            using OS = decltype(ex::connect(sp, rcv{nullptr}));
            std::optional<OS> os[4];
            for (int i = 0; i < K; ++i)
            {
                os[i].emplace(pika::detail::with_result_of([&] { return ex::connect(sp, rcv{&obs[i]}); }));
                tasks[nt++] = Task{&start_os<OS>, &*os[i], sweep(rng)};
            }
            if (Async) tasks[nt++] = Task{&fire, &gate, sweep(rng)};
            P.run(trial + 1, tasks, nt, (int) rng.below(nt));
            verdict(trial, Async ? 1 : 0, K, tasks, nt, c, obs, v0 + add);
        }
    }
    static void trial_es(Pool& P, std::uint64_t trial, vctl::Rng& rng)
    {
        Counters c;
        Gate gate;
        Obs obs[1];
        int const v0 = (int) (trial & 0xffff);
        Task tasks[2];
        {
            auto es = ex::ensure_started(leaf<true>{&c, &gate, v0, (trial & 3) != 3} | ex::then([&c](int v) {
                c.calls.fetch_add(1, std::memory_order_relaxed);
                return v + 7;
            }));
            auto os = ex::connect(std::move(es), rcv{&obs[0]});
            using OS = decltype(os);
            tasks[0] = Task{&start_os<OS>, &os, sweep(rng)};
            tasks[1] = Task{&fire, &gate, sweep(rng)};
            P.run(trial + 1, tasks, 2, (int) rng.below(2));
            verdict(trial, 2, 1, tasks, 2, c, obs, v0 + 7);
        }
    }
    // split_tuple: consumer i is the i-th element sender; the same start flag guards the shared predecessor
    template <class S>
    struct Held
    {
        using OS = decltype(ex::connect(std::declval<S&&>(), rcv{nullptr}));
        std::optional<OS> os;
        void make(S& snd, Obs* o)
        {
            os.emplace(pika::detail::with_result_of([&] { return ex::connect(std::move(snd), rcv{o}); }));
        }
        Task task(int d) { return Task{&start_os<OS>, &*os, d}; }
    };
    template <bool Async, class Tup, std::size_t... I>
    static void tuple_body(Pool& P, std::uint64_t trial, vctl::Rng& rng, Tup& tup, Counters& c, Gate& gate, int v0, std::index_sequence<I...>)
    {
        constexpr int K = (int) sizeof...(I);
        Obs obs[K];
        Task tasks[K + 1];
        int nt = 0;
        std::tuple<Held<std::tuple_element_t<I, Tup>>...> held;
        ((std::get<I>(held).make(std::get<I>(tup), &obs[I]), tasks[nt++] = std::get<I>(held).task(sweep(rng))), ...);
        if (Async) tasks[nt++] = Task{&fire, &gate, sweep(rng)};
        P.run(trial + 1, tasks, nt, (int) rng.below(nt));
        verdict(trial, Async ? 4 : 3, K, tasks, nt, c, obs, v0 + 7, 1);
    }
    template <bool Async>
    static void trial_tuple(Pool& P, std::uint64_t trial, int K, vctl::Rng& rng)
    {
        Counters c;
        Gate gate;
        int const v0 = (int) (trial & 0xffff);
        leaf<Async> l{&c, &gate, v0, (trial & 3) != 3};
        if (K == 2)
        {
            auto tup = ex::split_tuple(std::move(l) | ex::then([&c](int v) {
                c.calls.fetch_add(1, std::memory_order_relaxed);
                return std::tuple<int, int>(v + 7, v + 8);
            }));
            tuple_body<Async>(P, trial, rng, tup, c, gate, v0, std::make_index_sequence<2>{});
        }
        else
        {
            auto tup = ex::split_tuple(std::move(l) | ex::then([&c](int v) {
                c.calls.fetch_add(1, std::memory_order_relaxed);
                return std::tuple<int, int, int>(v + 7, v + 8, v + 9);
            }));
            tuple_body<Async>(P, trial, rng, tup, c, gate, v0, std::make_index_sequence<3>{});
        }
    }
    static void plan(std::uint64_t trial, int& mode, int& K)
    {
        // every prefix covers every (mode, K) evenly; split gets 6 of 11 blocks
        static int const M[11] = {0, 0, 0, 1, 1, 1, 2, 3, 3, 4, 4}, KK[11] = {2, 3, 4, 2, 3, 4, 1, 2, 3, 2, 3};
        int b = (int) ((trial / 256) % 11);
        mode = M[b];
        K = KK[b];
    }
    static int main_stress(std::uint64_t seed, std::uint64_t ntrials, long budget_ms)
    {
        Shm* shm = (Shm*) mmap(nullptr, sizeof(Shm), PROT_READ | PROT_WRITE, MAP_SHARED | MAP_ANONYMOUS, -1, 0);
        std::memset(shm, 0, sizeof(Shm));
        auto t0 = std::chrono::steady_clock::now();
        auto elapsed = [&] { return (long) std::chrono::duration_cast<std::chrono::milliseconds>(std::chrono::steady_clock::now() - t0).count(); };
        std::uint64_t next = 0;
        int deaths = 0;
        while (next < ntrials && elapsed() < budget_ms)
        {
            std::fflush(stdout);
            pid_t pid = fork();
            if (pid == 0)
            {
                if (!std::getenv("C03_KEEP_STDERR")) { (void) !freopen("/dev/null", "w", stderr); }
                Pool* P = new Pool;
                P->begin();
                for (std::uint64_t tr = next; tr < ntrials; ++tr)
                {
                    if ((tr & 63) == 0)
                    {
                        // a trial needs all five threads to be scheduled once: milliseconds each when the machine is
                        // oversubscribed, so the hang watchdog covers 64 trials only
                        alarm(60);
                        if (elapsed() >= budget_ms) break;
                    }
                    int mode, K;
                    plan(tr, mode, K);
                    shm->cur = tr;
                    shm->mode = mode;
                    shm->K = K;
                    vctl::Rng rng(seed * 1000003ull + tr);    // per-trial stream: a restart does not shift later trials
                    if (mode == 0) trial_split<false>(*P, tr, K, rng);
                    else if (mode == 1) trial_split<true>(*P, tr, K, rng);
                    else if (mode == 2) trial_es(*P, tr, rng);
                    else if (mode == 3) trial_tuple<false>(*P, tr, K, rng);
                    else trial_tuple<true>(*P, tr, K, rng);
                    ++shm->per[mode][K];
                    ++shm->total;
                }
                alarm(0);
                P->end();
                std::fflush(stdout);
                _exit(0);
            }
            int stt = 0;
            waitpid(pid, &stt, 0);
            if (WIFEXITED(stt) && WEXITSTATUS(stt) == 0) break;
            next = shm->cur + 1;
            ++deaths;
            if (!(WIFEXITED(stt) && WEXITSTATUS(stt) == 9))    // 9 = BAD line already printed
            {
                char const* what = "abort";
                if (WIFSIGNALED(stt) && WTERMSIG(stt) == SIGALRM) what = "hang";
                else if (WIFSIGNALED(stt) && WTERMSIG(stt) == SIGSEGV) what = "segv";
                else if (WIFSIGNALED(stt) && WTERMSIG(stt) == SIGBUS) what = "segv";
                else if (WIFEXITED(stt)) what = "exit";
                std::printf("DIED ST %llu %s mode=%s K=%d\n", (unsigned long long) shm->cur, what, MODE[shm->mode], shm->K);
            }
            std::fflush(stdout);
            if (deaths >= 6)
            {
                std::printf("SKIPPED ST after %d abnormal terminations\n", deaths);
                break;
            }
        }
        for (int m = 0; m < 5; ++m)
            for (int k = 0; k < 5; ++k)
                if (shm->per[m][k]) std::printf("SUM ST %s %d %llu\n", MODE[m], k, (unsigned long long) shm->per[m][k]);
        std::printf("DONE ST trials=%llu ms=%ld\n", (unsigned long long) shm->total, elapsed());
        std::fflush(stdout);
        return 0;
    }
}    // namespace st

int main(int argc, char** argv)
{
    if (argc > 2 && std::string(argv[1]) == "stress")
        return st::main_stress(std::strtoull(argv[2], nullptr, 10), argc > 3 ? std::strtoull(argv[3], nullptr, 10) : 100000,
            argc > 4 ? std::atol(argv[4]) : 15000);
    bool lifemode = argc > 1 && std::string(argv[1]) == "life";    // c03_lock life <seed> <ncases>
    if (lifemode)
    {
        --argc;
        ++argv;
        life::install();
    }
    std::uint64_t seed = argc > 1 ? std::strtoull(argv[1], nullptr, 10) : 1;
    int ncases = argc > 2 ? std::atoi(argv[2]) : 100;
    // replay: c03_lock replay HO <kind> <chan> <N> <sched>  |  replay JN <kind> <n> <comps> <sched>
    if (argc > 2 && std::string(argv[1]) == "replay")
    {
        vctl::Rng rng(1);
        std::vector<int> sch;
        std::string which = argv[2], k = argv[3];
        if (which == "HL")
        {
            // replay HL <kind> <chan> <N> <oracle bits> <sched>
            std::istringstream is(argv[7]);
            std::string tok;
            while (std::getline(is, tok, ','))
                if (tok != "-") sch.push_back(std::atoi(tok.c_str()));
            unsigned oracle = 0;
            for (int i = 0; argv[6][i]; ++i)
                if (argv[6][i] == '1') oracle |= 1u << i;
            life::install();
            life::case_life(0, rng, &sch, k == "SP" ? 0 : k == "ES" ? 1 : 2, argv[4][0], std::atoi(argv[5]), oracle);
        }
        else if (which == "HO")
        {
            std::istringstream is(argv[6]);
            std::string tok;
            while (std::getline(is, tok, ','))
                if (tok != "-") sch.push_back(std::atoi(tok.c_str()));
            case_handoff(0, rng, &sch, k == "SP" ? 0 : k == "ES" ? 1 : 2, argv[4][0], std::atoi(argv[5]));
        }
        else
        {
            std::istringstream is(argv[6]);
            std::string tok;
            while (std::getline(is, tok, ','))
                if (tok != "-") sch.push_back(std::atoi(tok.c_str()));
            case_join(0, rng, &sch, k == "WA" ? 0 : 1, argv[5]);
        }
        return 0;
    }
    int* cur = (int*) mmap(nullptr, sizeof(int), PROT_READ | PROT_WRITE, MAP_SHARED | MAP_ANONYMOUS, -1, 0);
    *cur = 0;
    int next = 0;
    int deaths = 0;
    while (next < ncases)
    {
        std::fflush(stdout);
        pid_t pid = fork();
        if (pid == 0)
        {
            if (!std::getenv("C03_KEEP_STDERR")) { (void) !freopen("/dev/null", "w", stderr); }
            for (int cs = next; cs < ncases; ++cs)
            {
                *cur = cs;
                alarm(12);
                vctl::Rng rng(seed * 1000003ull + (std::uint64_t) cs);    // per-case stream: a restart does not shift later cases
                if (lifemode)
                    life::case_life(cs, rng, nullptr, 0, 'V', 0, 0);
                else if (cs % 2 == 0)
                    case_handoff(cs, rng, nullptr, 0, 'V', 0);
                else
                    case_join(cs, rng, nullptr, 0, "");
            }
            alarm(0);
            std::fflush(stdout);
            _exit(0);
        }
        int st = 0;
        waitpid(pid, &st, 0);
        if (WIFEXITED(st) && WEXITSTATUS(st) == 0) break;
        int i = *cur;
        char const* what = "abort";
        if (WIFSIGNALED(st) && WTERMSIG(st) == SIGALRM) what = "hang";
        else if (WIFSIGNALED(st) && WTERMSIG(st) == SIGSEGV) what = "segv";
        else if (WIFEXITED(st) && WEXITSTATUS(st) == 7) what = "stuck";
        else if (WIFEXITED(st)) what = "exit";
        std::printf("DIED %s %d %s\n", lifemode ? "HL" : i % 2 == 0 ? "HO" : "JN", i, what);
        std::fflush(stdout);
        next = i + 1;
        if (++deaths >= 12)
        {
            std::printf("SKIPPED LOCK %d cases after %d abnormal terminations\n", ncases - next, deaths);
            std::fflush(stdout);
            break;
        }
    }
    return 0;
}
