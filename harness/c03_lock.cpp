// C03 LOCKSTEP harness: the REAL shared state of split / ensure_started / split_tuple (consumers
// racing the predecessor's completion) and the REAL join of when_all / when_all_vector (children
// completing on different threads), interleavings chosen by the controller at the
// PIKA_VERIF_POINT sites 301-305 / 311-315 / 321-325 / 331-332 / 341-342.  For each case:
//   IN  HO <id> <kind SP|ES|ST> <chan V|E|S> <consumers> <schedule>
//   OUT HO <id> sites=<..> sig=<per consumer count:result:by-thread | ...> order=<consumers in signalling order> led=<live>
//   IN  JN <id> <kind WA|WV> <n> <child completions> <schedule>
//   OUT JN <id> sites=<..> n=<signals> r=<result> by=<thread> led=<live>
// Runs in a forked child per batch so that an abort / hang of the real code is an observation.
#include "common/ctl.hpp"

#include "common/c03_util.hpp"

#include <pika/execution.hpp>

#include <csignal>
#include <sys/mman.h>
#include <sys/wait.h>
#include <unistd.h>

using namespace c03;

// ---------------------------------------------------------------------- manually fired leaf
struct Manual
{
    std::atomic<bool> started{false};
    std::function<void()> fire;
};
struct mleaf_data
{
    Manual* m = nullptr;
    int chan = VAL;
    V vals;
    long e = 0;
};
struct mleaf : mleaf_data
{
    template <template <class...> class T, template <class...> class Var>
    using value_types = Var<T<V>>;
    template <template <class...> class Var>
    using error_types = Var<std::exception_ptr>;
    static constexpr bool sends_done = true;
    template <class R>
    struct op
    {
        R r;
        mleaf_data l;
        op(R&& r_, mleaf_data&& l_) : r(std::move(r_)), l(std::move(l_)) {}
        op(op&&) = delete;
        void start() & noexcept
        {
            l.m->fire = [this] {
                switch (l.chan)
                {
                case VAL: ex::set_value(std::move(r), std::move(l.vals)); break;
                case ERR: ex::set_error(std::move(r), leaf_exception(l.e)); break;
                default: ex::set_stopped(std::move(r)); break;
                }
            };
            l.m->started.store(true);
        }
    };
    template <class R>
    op<std::decay_t<R>> connect(R&& r) &&
    {
        return {std::decay_t<R>(std::forward<R>(r)), std::move(static_cast<mleaf_data&>(*this))};
    }
};
// ---------------------------------------------------------------------- observing receivers
static std::atomic<int> g_seq{0};
struct LObs
{
    std::atomic<int> n{0};
    std::string res;
    int by = -1, seq = -1;
    void rec(std::string r)
    {
        if (n.fetch_add(1) == 0)
        {
            res = std::move(r);
            by = vctl::t_id;
            seq = g_seq.fetch_add(1);
        }
    }
};
static void flat(std::ostringstream& o, bool& first, V const& v)
{
    for (auto const& p : v)
    {
        o << (first ? "" : ",") << p.v;
        first = false;
    }
}
static void flat(std::ostringstream& o, bool& first, std::vector<V> const& vv)
{
    for (auto const& v : vv) flat(o, first, v);
}
struct lrcv
{
    LObs* o;
    template <class... Ts>
    void set_value(Ts&&... ts) && noexcept
    {
        std::ostringstream s;
        s << "V:";
        bool first = true;
        (flat(s, first, ts), ...);
        o->rec(s.str());
    }
    void set_error(std::exception_ptr ep) && noexcept { o->rec("E:" + std::to_string(exn_id(ep))); }
    template <class E>
    void set_error(E&&) && noexcept { o->rec("E:?"); }
    void set_stopped() && noexcept { o->rec("S"); }
    constexpr ex::empty_env get_env() const noexcept { return {}; }
};

// ---------------------------------------------------------------------- the controller loop
struct Sched
{
    std::vector<int> sched, sites;
};
template <class Eligible>
static bool drive(vctl::Controller& ctl, vctl::Rng& rng, int base, Sched& s, Eligible eligible, std::vector<int> const* replay)
{
    size_t ri = 0;
    for (int guard = 0; guard < 10000; ++guard)
    {
        if (!ctl.quiesce(8000)) return false;
        auto p = ctl.parked();
        if (p.empty()) return true;
        std::vector<int> c;
        for (int t : p)
            if (eligible(t, ctl.site_of(t))) c.push_back(t);
        if (c.empty()) return false;    // parked threads but nobody may run: stuck
        int t;
        if (replay)
        {
            if (ri >= replay->size()) return false;
            t = (*replay)[ri++];
            bool ok = false;
            for (int x : c) ok = ok || x == t;
            if (!ok) return false;
        }
        else
        {
            t = c[rng.below(c.size())];
            if (!s.sched.empty() && rng.chance(1, 3))
                for (int x : c)
                    if (x == s.sched.back()) t = x;
        }
        s.sched.push_back(t);
        int st = ctl.site_of(t);
        s.sites.push_back(st == 0 ? 0 : st - base);
        ctl.release(t);
    }
    return false;
}

static std::string csv(std::vector<int> const& v)
{
    std::ostringstream o;
    for (size_t i = 0; i < v.size(); ++i) o << (i ? "," : "") << v[i];
    if (v.empty()) o << "-";
    return o.str();
}

static mleaf mk(Manual* m, char chan, std::vector<long> vals, long e)
{
    mleaf l;
    l.m = m;
    l.chan = chan == 'V' ? VAL : chan == 'E' ? ERR : STP;
    l.vals = mkV(vals);
    l.e = e;
    return l;
}

// ---------------------------------------------------------------------- hand-off cases
static void print_handoff(int id, char const* kind, char chan, int N, Sched const& s, std::vector<LObs>& obs, bool ok)
{
    std::ostringstream in, out;
    in << "IN HO " << id << " " << kind << " " << chan << " " << N << " " << csv(s.sched);
    out << "OUT HO " << id << " sites=" << csv(s.sites) << " sig=";
    std::vector<std::pair<int, int>> order;
    for (int i = 0; i < N; ++i)
    {
        out << (i ? "|" : "") << obs[i].n.load() << ":" << (obs[i].n.load() ? obs[i].res : "-") << ":" << obs[i].by;
        if (obs[i].n.load()) order.push_back({obs[i].seq, i + 1});
    }
    if (N == 0) out << "-";
    std::sort(order.begin(), order.end());
    out << " order=";
    for (size_t i = 0; i < order.size(); ++i) out << (i ? "," : "") << order[i].second;
    if (order.empty()) out << "-";
    out << " led=" << g_led.live() << (ok ? "" : " STUCK");
    std::printf("%s\n%s\n", in.str().c_str(), out.str().c_str());
    std::fflush(stdout);
}

static void case_handoff(int id, vctl::Rng& rng, std::vector<int> const* replay, int kind_, char chan_, int N_)
{
    g_led.reset();
    g_seq = 0;
    int kind = replay ? kind_ : (int) rng.below(3);    // 0 SP, 1 ES, 2 ST
    char chan = replay ? chan_ : "VES"[rng.below(3)];
    int N = replay ? N_ : (kind == 0 ? 1 + (int) rng.below(4) : kind == 1 ? 1 : 2 + (int) rng.below(2));
    char const* kname = kind == 0 ? "SP" : kind == 1 ? "ES" : "ST";
    int base = kind == 0 ? 300 : kind == 1 ? 310 : 320;
    Manual m;
    std::vector<LObs> obs(N);
    Sched s;
    bool ok = true;
    {
        vctl::Controller ctl(N + 1, base + 1, base + 5);
        auto eligible = [&](int t, int site) { return !(t == 0 && site == 0 && !m.started.load()); };
        auto pred = [&] {
            ctl.begin(0);
            m.fire();
            ctl.end();
        };
        std::vector<std::thread> th;
        if (kind == 0)
        {
            auto sp = ex::split(mk(&m, chan, {1, 2}, 105));
            using OS = decltype(ex::connect(sp, lrcv{nullptr}));
            std::vector<std::unique_ptr<OS>> os;
            for (int i = 0; i < N; ++i)
                os.emplace_back(new OS(pika::detail::with_result_of([&] { return ex::connect(sp, lrcv{&obs[i]}); })));
            th.emplace_back(pred);
            for (int i = 0; i < N; ++i)
                th.emplace_back([&, i] {
                    ctl.begin(i + 1);
                    ex::start(*os[i]);
                    ctl.end();
                });
            ok = drive(ctl, rng, base, s, eligible, replay);
            if (!ok) { print_handoff(id, kname, chan, N, s, obs, false); std::fflush(stdout); _exit(7); }
            for (auto& x : th) x.join();
        }
        else if (kind == 1)
        {
            auto es = ex::ensure_started(mk(&m, chan, {1, 2}, 105));
            auto os = ex::connect(std::move(es), lrcv{&obs[0]});
            th.emplace_back(pred);
            th.emplace_back([&] {
                ctl.begin(1);
                ex::start(os);
                ctl.end();
            });
            ok = drive(ctl, rng, base, s, eligible, replay);
            if (!ok) { print_handoff(id, kname, chan, N, s, obs, false); std::fflush(stdout); _exit(7); }
            for (auto& x : th) x.join();
        }
        else
        {
            auto run_tuple = [&](auto tupsender) {
                std::apply(
                    [&](auto&&... snd) {
                        int i = 0;
                        // braced initialisation: elements are evaluated left to right
                        std::tuple oss{std::unique_ptr<decltype(ex::connect(std::move(snd), lrcv{nullptr}))>(
                            new decltype(ex::connect(std::move(snd), lrcv{nullptr}))(pika::detail::with_result_of(
                                [&] { return ex::connect(std::move(snd), lrcv{&obs[i++]}); })))...};
                        th.emplace_back(pred);
                        int k = 0;
                        std::apply(
                            [&](auto&... o) {
                                ((th.emplace_back([&ctl, &o, kk = ++k] {
                                    ctl.begin(kk);
                                    ex::start(*o);
                                    ctl.end();
                                })),
                                    ...);
                            },
                            oss);
                        ok = drive(ctl, rng, base, s, eligible, replay);
                        if (!ok) { print_handoff(id, kname, chan, N, s, obs, false); std::fflush(stdout); _exit(7); }
                        for (auto& x : th) x.join();
                    },
                    std::move(tupsender));
            };
            if (N == 2)
                run_tuple(ex::split_tuple(mk(&m, chan, {1, 2}, 105) | ex::then([](V v) {
                    return std::tuple<V, V>(V(v.begin(), v.begin() + 1), V(v.begin() + 1, v.end()));
                })));
            else
                run_tuple(ex::split_tuple(mk(&m, chan, {1, 2}, 105) | ex::then([](V v) {
                    return std::tuple<V, V, V>(V(v.begin(), v.begin() + 1), V(v.begin() + 1, v.end()), V{});
                })));
        }
    }
    {
        std::lock_guard l(g_ep_m);
        g_leaf_eps.clear();
    }
    print_handoff(id, kname, chan, N, s, obs, ok);
}

// ---------------------------------------------------------------------- join cases
static void case_join(int id, vctl::Rng& rng, std::vector<int> const* replay, int kind_, std::string comps_)
{
    g_led.reset();
    g_seq = 0;
    int kind = replay ? kind_ : (int) rng.below(2);    // 0 WA, 1 WV
    int n = replay ? (int) comps_.size() : 1 + (int) rng.below(4);
    std::string comps = comps_;
    if (!replay)
    {
        comps.clear();
        int mode = (int) rng.below(3);    // mostly values / mixed / mostly failing
        for (int i = 0; i < n; ++i)
        {
            unsigned p = (unsigned) rng.below(10);
            comps.push_back(mode == 0 ? (p < 8 ? 'V' : p < 9 ? 'E' : 'S') : mode == 1 ? "VES"[p % 3] : (p < 2 ? 'V' : p < 6 ? 'E' : 'S'));
        }
    }
    char const* kname = kind == 0 ? "WA" : "WV";
    int base = kind == 0 ? 330 : 340;
    std::vector<Manual> m(n);
    LObs obs;
    Sched s;
    bool ok = true;
    auto leafi = [&](int i) { return mk(&m[i], comps[i], {10 * i + 1}, 100 + i); };
    auto go = [&](auto& os) {
        vctl::Controller ctl(n, base + 1, base + 2);
        ex::start(os);    // starts every child (manual leaves: nothing completes yet)
        std::vector<std::thread> th;
        for (int i = 0; i < n; ++i)
            th.emplace_back([&, i] {
                ctl.begin(i);
                m[i].fire();
                ctl.end();
            });
        ok = drive(ctl, rng, base, s, [](int, int) { return true; }, replay);
        if (ok)
            for (auto& x : th) x.join();
    };
    if (kind == 1)
    {
        std::vector<mleaf> v;
        for (int i = 0; i < n; ++i) v.push_back(leafi(i));
        auto os = ex::connect(ex::when_all_vector(std::move(v)), lrcv{&obs});
        go(os);
    }
    else
    {
        switch (n)
        {
        case 1: { auto os = ex::connect(ex::when_all(leafi(0)), lrcv{&obs}); go(os); break; }
        case 2: { auto os = ex::connect(ex::when_all(leafi(0), leafi(1)), lrcv{&obs}); go(os); break; }
        case 3: { auto os = ex::connect(ex::when_all(leafi(0), leafi(1), leafi(2)), lrcv{&obs}); go(os); break; }
        default: { auto os = ex::connect(ex::when_all(leafi(0), leafi(1), leafi(2), leafi(3)), lrcv{&obs}); go(os); break; }
        }
    }
    {
        std::lock_guard l(g_ep_m);
        g_leaf_eps.clear();
    }
    std::printf("IN JN %d %s %d %s %s\nOUT JN %d sites=%s n=%d r=%s by=%d led=%ld%s\n", id, kname, n, comps.c_str(),
        csv(s.sched).c_str(), id, csv(s.sites).c_str(), obs.n.load(), obs.n.load() ? obs.res.c_str() : "-", obs.by,
        g_led.live(), ok ? "" : " STUCK");
    std::fflush(stdout);
    if (!ok) _exit(7);
}

int main(int argc, char** argv)
{
    std::uint64_t seed = argc > 1 ? std::strtoull(argv[1], nullptr, 10) : 1;
    int ncases = argc > 2 ? std::atoi(argv[2]) : 100;
    // replay: c03_lock replay HO <kind> <chan> <N> <sched>  |  replay JN <kind> <n> <comps> <sched>
    if (argc > 2 && std::string(argv[1]) == "replay")
    {
        vctl::Rng rng(1);
        std::vector<int> sch;
        std::string which = argv[2], k = argv[3];
        if (which == "HO")
        {
            std::istringstream is(argv[6]);
            std::string tok;
            while (std::getline(is, tok, ','))
                if (tok != "-") sch.push_back(std::atoi(tok.c_str()));
            case_handoff(0, rng, &sch, k == "SP" ? 0 : k == "ES" ? 1 : 2, argv[4][0], std::atoi(argv[5]));
        }
        else
        {
            std::istringstream is(argv[6]);
            std::string tok;
            while (std::getline(is, tok, ','))
                if (tok != "-") sch.push_back(std::atoi(tok.c_str()));
            case_join(0, rng, &sch, k == "WA" ? 0 : 1, argv[5]);
        }
        return 0;
    }
    int* cur = (int*) mmap(nullptr, sizeof(int), PROT_READ | PROT_WRITE, MAP_SHARED | MAP_ANONYMOUS, -1, 0);
    *cur = 0;
    int next = 0;
    int deaths = 0;
    while (next < ncases)
    {
        std::fflush(stdout);
        pid_t pid = fork();
        if (pid == 0)
        {
            if (!std::getenv("C03_KEEP_STDERR")) { (void) !freopen("/dev/null", "w", stderr); }
            for (int cs = next; cs < ncases; ++cs)
            {
                *cur = cs;
                alarm(12);
                vctl::Rng rng(seed * 1000003ull + (std::uint64_t) cs);    // per-case stream: a restart does not shift later cases
                if (cs % 2 == 0)
                    case_handoff(cs, rng, nullptr, 0, 'V', 0);
                else
                    case_join(cs, rng, nullptr, 0, "");
            }
            alarm(0);
            std::fflush(stdout);
            _exit(0);
        }
        int st = 0;
        waitpid(pid, &st, 0);
        if (WIFEXITED(st) && WEXITSTATUS(st) == 0) break;
        int i = *cur;
        char const* what = "abort";
        if (WIFSIGNALED(st) && WTERMSIG(st) == SIGALRM) what = "hang";
        else if (WIFSIGNALED(st) && WTERMSIG(st) == SIGSEGV) what = "segv";
        else if (WIFEXITED(st) && WEXITSTATUS(st) == 7) what = "stuck";
        else if (WIFEXITED(st)) what = "exit";
        std::printf("DIED %s %d %s\n", i % 2 == 0 ? "HO" : "JN", i, what);
        std::fflush(stdout);
        next = i + 1;
        if (++deaths >= 12)
        {
            std::printf("SKIPPED LOCK %d cases after %d abnormal terminations\n", ncases - next, deaths);
            std::fflush(stdout);
            break;
        }
    }
    return 0;
}
