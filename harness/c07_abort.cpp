// harness/c07_abort.cpp — C06/C07, round w11c: pika::detail::condition_variable::abort_all on the REAL class.
//   c07_abort <id> <n> <mode>     mode: call = abort_all(std::move(lock)); dtor = ~condition_variable() with waiters queued
// n plain OS threads (default agent) each lock the spinlock and call detail wait; when all n entries are queued AND all n agents
// are suspended (hooks not needed: size(lock) == n, then the aborter's abort() itself waits for !running_), the main thread aborts.
// Observed per waiter: did wait return or throw pika::exception(yield_aborted), how often; did the thread finish (watchdog: a
// waiter left blocked is reported, not hung).  Afterwards every waiter performs a SECOND wait on another, healthy condition variable
// that the main thread notifies normally: default_agent::aborted_ is never reset, so that wait throws as well (sticky = n).
// Compared with Model/CondVarAbort.v through ocaml/drv_c07.ml (kind ABORT); monitor in tools/props/c07.py::run_abort.
// Reachability: not through pika::condition_variable (reference-counted data, every waiter holds a reference); see Props.
#include <pika/concurrency/spinlock.hpp>
#include <pika/modules/errors.hpp>
#include <pika/synchronization/detail/condition_variable.hpp>

#include <atomic>
#include <chrono>
#include <cstdio>
#include <cstdlib>
#include <cstring>
#include <mutex>
#include <new>
#include <string>
#include <thread>
#include <unistd.h>
#include <vector>

using spinlock = pika::concurrency::detail::spinlock;
using dcv = pika::detail::condition_variable;
using namespace std::chrono_literals;

struct Rec
{
    std::atomic<int> returned{0}, thrown{0}, other{0}, finished{0}, second_returned{0}, second_thrown{0};
};

int main(int argc, char** argv)
{
    if (argc < 4) return 2;
    std::string id = argv[1];
    int n = std::atoi(argv[2]);
    bool dtor = std::strcmp(argv[3], "dtor") == 0;
    setvbuf(stdout, nullptr, _IOLBF, 0);

    spinlock mtx, mtx2;
    alignas(dcv) static unsigned char buf[sizeof(dcv)];
    dcv* cv = new (buf) dcv;    // the storage outlives the object: nothing is unmapped when the destructor runs
    dcv cv2;
    std::vector<Rec> rec(static_cast<std::size_t>(n));
    std::atomic<int> second_queued{0};
    std::vector<std::thread> th;
    for (int i = 0; i < n; ++i)
        th.emplace_back([&, i] {
            Rec& r = rec[static_cast<std::size_t>(i)];
            {
                std::unique_lock<spinlock> l(mtx);
                try
                {
                    cv->wait(l);
                    r.returned++;
                }
                catch (pika::exception const& e)
                {
                    if (e.get_error() == pika::error::yield_aborted) r.thrown++;
                    else r.other++;
                }
                catch (...)
                {
                    r.other++;
                }
            }
            {
                std::unique_lock<spinlock> l(mtx2);
                try
                {
                    cv2.wait(l);
                    r.second_returned++;
                }
                catch (pika::exception const& e)
                {
                    if (e.get_error() == pika::error::yield_aborted) r.second_thrown++;
                    else r.other++;
                }
                catch (...)
                {
                    r.other++;
                }
            }
            r.finished++;
        });
    auto wait_size = [&](dcv& c, spinlock& m, std::size_t want, double secs) {
        auto t0 = std::chrono::steady_clock::now();
        for (;;)
        {
            {
                std::unique_lock<spinlock> l(m);
                if (c.size(l) >= want) return true;
            }
            if (std::chrono::duration<double>(std::chrono::steady_clock::now() - t0).count() > secs) return false;
            std::this_thread::sleep_for(200us);
        }
    };
    bool queued = wait_size(*cv, mtx, std::size_t(n), 20.0);
    std::size_t left = 0;
    if (dtor) { cv->~dcv(); }
    else
    {
        std::unique_lock<spinlock> l(mtx);
        cv->abort_all(std::move(l));
        std::unique_lock<spinlock> l2(mtx);
        left = cv->size(l2);
    }
    // the waiters leave the first wait (exception) and queue up on the healthy condition variable
    bool queued2 = wait_size(cv2, mtx2, std::size_t(n), 10.0);
    int first_thrown = 0, first_returned = 0;
    for (auto& r : rec)
    {
        first_thrown += r.thrown.load();
        first_returned += r.returned.load();
    }
    int blocked_first = n - first_thrown - first_returned;    // still inside the first wait 10 s after the abort
    // normal notification of the second wait (repeated: a waiter may still be on its way into the queue)
    auto t0 = std::chrono::steady_clock::now();
    auto all_finished = [&] {
        for (auto& r : rec)
            if (!r.finished.load()) return false;
        return true;
    };
    while (!all_finished() && std::chrono::steady_clock::now() - t0 < 10s)
    {
        {
            std::unique_lock<spinlock> l(mtx2);
            cv2.notify_all(std::move(l));
        }
        std::this_thread::sleep_for(1ms);
    }
    int fin = 0, other = 0, s_ret = 0, s_thr = 0;
    for (auto& r : rec)
    {
        fin += r.finished.load();
        other += r.other.load();
        s_ret += r.second_returned.load();
        s_thr += r.second_thrown.load();
    }
    std::printf("OUT ABORT %s aborts=%d thrown=%d selfrem=0 blocked=%d finished=%d queue=%zu sticky=%d aborter_done=1 all=1 queued=%d queued2=%d "
                "returned_normally=%d other_exceptions=%d second_returned=%d second_thrown=%d mode=%s\n",
        id.c_str(), first_thrown, first_thrown, blocked_first, fin, left, s_thr, queued ? 1 : 0, queued2 ? 1 : 0, first_returned, other, s_ret, s_thr,
        dtor ? "dtor" : "call");
    std::fflush(stdout);
    if (fin != n) _exit(0);    // blocked waiters cannot be joined
    for (auto& t : th) t.join();
    if (!dtor) cv->~dcv();
    return 0;
}
