// C20 harness (MPI build): drives the REAL pika::mpi code.
//   c20_mpi proc  <mode> <pool> <npairs> <seed>   PROC: self-addressed send/recv pairs through transform_mpi
//   c20_mpi err   <mode> <pool> <nops>            error-status path (MPI_ERRORS_RETURN + MPI_DATATYPE_NULL)
//   c20_mpi trace <mode> <ncases> <seed>          generalized requests completed by the harness; the hooks
//                                                 2001..2010 of mpi_polling.cpp are logged and replayed by the model
//   c20_mpi polloff <mode> <pool>                 after stop_polling nobody may poll any more
//   c20_mpi mtpool <mode> <W> <n> <seed> [free]   polling pool with W workers chosen through start_polling(h, name)
//   c20_mpi strace <mode> <ncases> <seed>         the same for poll_singlethreaded (dedicated pool, non-inline
//                                                 requests): hooks 2001/2002/2009/2011/2004/2005/2010
//   c20_mpi waitq <mode> <pool> <npairs> <rounds> <seed> <final>
//                                                 pika::wait() (final=1: last round pika::finalize/stop) against
//                                                 requests with SLOW continuations; ledger read right after the call
// PROC also counts, with the hooks, what the real poll_singlethreaded does while a callback of transform_mpi
// runs in place (registrations from inside a callback, OS threads that touch the single-threaded poller).
// Output: IN/OUT lines (flushed per case).  A watchdog turns a hang into an OUT line + exit code 4.
#include <pika/config.hpp>
#include <pika/execution.hpp>
#include <pika/init.hpp>
#include <pika/mpi.hpp>
#include <pika/thread.hpp>
#include <pika/threading_base/detail/global_activity_count.hpp>

#include <mpi.h>

#include <atomic>
#include <chrono>
#include <cinttypes>
#include <cstdio>
#include <cstdlib>
#include <cstring>
#include <map>
#include <memory>
#include <mutex>
#include <sstream>
#include <string>
#include <thread>
#include <unistd.h>
#include <vector>

#if !defined(PIKA_VERIF)
#error "compile with -DPIKA_VERIF"
#endif

namespace ex = pika::execution::experimental;
namespace mpi = pika::mpi::experimental;
namespace tt = pika::this_thread::experimental;
using namespace std::chrono_literals;

struct Rng
{
    std::uint64_t x;
    explicit Rng(std::uint64_t s) : x(s * 0x9E3779B97F4A7C15ull + 0x1234567ull) {}
    std::uint64_t next()
    {
        std::uint64_t z = (x += 0x9E3779B97F4A7C15ull);
        z = (z ^ (z >> 30)) * 0xBF58476D1CE4E5B9ull;
        z = (z ^ (z >> 27)) * 0x94D049BB133111EBull;
        return z ^ (z >> 31);
    }
    std::uint64_t below(std::uint64_t n) { return n ? next() % n : 0; }
};

// ------------------------------------------------------------------ watchdog
static std::string g_hang_line = "OUT HANG ?";
static std::atomic<bool> g_finished{false};
static std::atomic<int> g_phase{0};
static void start_watchdog(int seconds)
{
    std::thread([seconds] {
        for (int i = 0; i < seconds * 20; ++i)
        {
            std::this_thread::sleep_for(50ms);
            if (g_finished.load()) return;
        }
        std::printf("%s hang=1 phase=%d\n", g_hang_line.c_str(), g_phase.load());
        std::fflush(stdout);
        _exit(4);
    }).detach();
}

template <typename F>
static void run_on_pika(F&& f)
{
    tt::sync_wait(ex::schedule(ex::thread_pool_scheduler{}) | ex::then(std::forward<F>(f)));
}
template <typename F>
static void spawn(F&& f)
{
    ex::start_detached(ex::schedule(ex::thread_pool_scheduler{}) | ex::then(std::forward<F>(f)));
}

static bool g_pool = false;
static void rp_cb(pika::resource::partitioner& rp, pika::program_options::variables_map const&)
{
    if (g_pool) mpi::detail::create_pool(rp, "", mpi::polling_pool_creation_mode::mode_force_create);
}
static void start_runtime(int mode, bool pool, char* argv0)
{
    g_pool = pool;
    static std::string a0 = argv0, a1 = "--pika:threads=4",
                       a2 = "--pika:mpi-completion-mode=" + std::to_string(mode);
    static char const* av[] = {a0.c_str(), a1.c_str(), a2.c_str(), nullptr};
    pika::init_params p;
    p.rp_callback = &rp_cb;
    pika::start(nullptr, 3, av, p);
}

// ------------------------------------------------------------------ counting receiver
struct Ledger
{
    std::atomic<int> nval{0}, nerr{0}, nstop{0};
};
static std::vector<Ledger>* g_led = nullptr;
static std::atomic<int> g_done{0};
static void (*g_on_value)(int) = nullptr;

struct Rcv
{
    int op;
    template <class... T>
    void set_value(T&&...) && noexcept
    {
        if (g_on_value) g_on_value(op);
        ++(*g_led)[op].nval;
        ++g_done;
    }
    template <class E>
    void set_error(E&&) && noexcept
    {
        ++(*g_led)[op].nerr;
        ++g_done;
    }
    void set_stopped() && noexcept
    {
        ++(*g_led)[op].nstop;
        ++g_done;
    }
    constexpr ex::empty_env get_env() const noexcept { return {}; }
};
using Op = ex::connect_result_t<ex::unique_any_sender<>, Rcv>;

// ------------------------------------------------------------------ PROC
static int my_tid();
static std::vector<int>* g_chain = nullptr;    // op -> operation to start from inside its continuation
static void (*g_start_op)(int) = nullptr;
static int g_n = 0;
static std::vector<std::vector<int>> g_sbuf, g_rbuf;
static std::vector<std::atomic<int>>* g_send_issued = nullptr;
static std::atomic<int> g_premature{0}, g_badsum{0};
static inline int pattern(int k, size_t i) { return (int) (k * 2654435761u + i * 40503u + 17u); }
static void proc_on_value(int op)
{
    // chained operation: started from INSIDE the continuation of op (in the continuation/completion-inline
    // modes that is inside the poller's callback)
    if (g_chain && op < (int) g_chain->size() && (*g_chain)[op] >= 0 && g_start_op) g_start_op((*g_chain)[op]);
    if (op >= g_n) return;    // a send
    int k = op;               // recv of pair k: the data must be there, the matching send must have been issued
    if (!(*g_send_issued)[k].load()) ++g_premature;
    auto& r = g_rbuf[k];
    for (size_t i = 0; i < r.size(); ++i)
        if (r[i] != pattern(k, i))
        {
            ++g_badsum;
            break;
        }
}

// what the real single-threaded poller does (hooks): hits of Testany, registrations that happen between
// the hit (2009) and the return of its callback (2011) on that thread, OS threads seen at 2001(single)/2009
static std::atomic<int> g_st_hits{0}, g_st_inline_add{0}, g_st_reg{0}, g_chain_in_cb{0};
static thread_local bool tl_in_cb = false;    // this OS thread is between 2009 and 2011: a callback runs in place
static std::atomic<std::uint64_t> g_st_threads{0};
static void proc_hook(int site, void const*, std::uint64_t, std::uint64_t b)
{
    bool& in_cb = tl_in_cb;
    switch (site)
    {
    case 2001:
        if (b == 1)
        {
            ++g_st_reg;
            g_st_threads |= (1ull << (my_tid() & 63));
        }
        if (in_cb) ++g_st_inline_add;
        break;
    case 2002:
        if (in_cb) ++g_st_inline_add;
        break;
    case 2009:
        ++g_st_hits;
        in_cb = true;
        g_st_threads |= (1ull << (my_tid() & 63));
        break;
    case 2011: in_cb = false; break;
    }
}

static int do_proc(int mode, bool pool, int n, std::uint64_t seed, char* argv0)
{
    Rng rng(seed * 977 + mode * 31 + (pool ? 7 : 0));
    std::ostringstream hl;
    hl << "OUT PROC m" << mode << "p" << (pool ? 1 : 0) << " n=" << n;
    g_hang_line = hl.str();
    start_watchdog(60);
    g_n = n;
    // a third of the pairs gets a second, chained pair: its receive is started up front, its send from inside
    // the continuation of the first receive
    std::vector<int> cpairs;
    for (int k = 0; k < n; ++k)
        if (k % 3 == 1) cpairs.push_back(k);
    int const m = (int) cpairs.size();
    int const total = 2 * n + 2 * m;
    std::vector<Ledger> led(total);
    g_led = &led;
    std::vector<int> chain(total, -1);
    g_chain = &chain;
    static std::vector<int> cbuf_s, cbuf_r;
    cbuf_s.assign(m, 0);
    cbuf_r.assign(m, -1);
    std::vector<std::atomic<int>> issued(n);
    g_send_issued = &issued;
    g_on_value = &proc_on_value;
    g_sbuf.resize(n);
    g_rbuf.resize(n);
    for (int k = 0; k < n; ++k)
    {
        size_t len = (rng.below(8) == 0) ? 20000 + rng.below(50000) : 1 + rng.below(600);
        g_sbuf[k].resize(len);
        g_rbuf[k].assign(len, -1);
        for (size_t i = 0; i < len; ++i) g_sbuf[k][i] = pattern(k, i);
    }
    start_runtime(mode, pool, argv0);
    pika::verif::hook.store(&proc_hook, std::memory_order_release);
    g_phase = 1;
    run_on_pika([] { mpi::start_polling(mpi::exception_mode::no_handler); });
    g_phase = 2;
    MPI_Comm comm = MPI_COMM_WORLD;
    static std::vector<std::unique_ptr<Op>> ops;
    ops.clear();
    ops.resize(total);
    g_start_op = +[](int o) {
        if (tl_in_cb) ++g_chain_in_cb;    // a new transform_mpi operation is started from inside the running callback
        ex::start(*ops[o]);
    };
    for (int j = 0; j < m; ++j)
    {
        cbuf_s[j] = 7000 + j;
        ops[2 * n + j].reset(new Op(ex::connect(
            mpi::transform_mpi(ex::just((void*) &cbuf_r[j], 1, MPI_INT, 0, n + cpairs[j], comm), MPI_Irecv),
            Rcv{2 * n + j})));
        ops[2 * n + m + j].reset(new Op(ex::connect(
            mpi::transform_mpi(ex::just((void const*) &cbuf_s[j], 1, MPI_INT, 0, n + cpairs[j], comm), MPI_Isend),
            Rcv{2 * n + m + j})));
        chain[cpairs[j]] = 2 * n + m + j;    // continuation of receive cpairs[j] starts the chained send
        spawn([j, n] { ex::start(*ops[2 * n + j]); });
    }
    for (int k = 0; k < n; ++k)
    {
        ops[k].reset(new Op(ex::connect(
            mpi::transform_mpi(
                ex::just((void*) g_rbuf[k].data(), (int) g_rbuf[k].size(), MPI_INT, 0, k, comm), MPI_Irecv),
            Rcv{k})));
        ops[n + k].reset(new Op(ex::connect(
            mpi::transform_mpi(
                ex::just((void const*) g_sbuf[k].data(), (int) g_sbuf[k].size(), MPI_INT, 0, k, comm),
                MPI_Isend),
            Rcv{n + k})));
    }
    // two thirds of the pairs: recv and send started concurrently in random order; one third ("gated"):
    // the send is started 40 ms later by another OS thread, so the recv request cannot complete before
    std::vector<int> gated;
    for (int k = 0; k < n; ++k)
    {
        bool g = (k % 3 == 0);
        if (g) gated.push_back(k);
        bool first_send = !g && rng.below(2);
        auto start_recv = [k] { ex::start(*ops[k]); };
        auto start_send = [&issued, k, n] {
            issued[k].store(1);
            ex::start(*ops[n + k]);
        };
        if (first_send) spawn(start_send);
        spawn(start_recv);
        if (!g && !first_send) spawn(start_send);
    }
    std::thread gate([&] {
        std::this_thread::sleep_for(40ms);
        for (int k : gated)
            spawn([&issued, k, n] {
                issued[k].store(1);
                ex::start(*ops[n + k]);
            });
    });
    g_phase = 3;
    // pika::wait() must not return while MPI requests are in flight / their continuations have not run
    pika::wait();
    int done_at_wait = g_done.load();
    int issued_at_wait = 0;
    for (int k : gated) issued_at_wait += issued[k].load();
    g_phase = 4;
    gate.join();
    // everything must complete eventually
    for (int i = 0; i < 400 && g_done.load() < total; ++i) std::this_thread::sleep_for(25ms);
    int lost = 0, sigbad = 0, errs = 0, cbad = 0;
    for (int j = 0; j < m; ++j)
        if (cbuf_r[j] != 7000 + j) ++cbad;
    for (int i = 0; i < total; ++i)
    {
        int s = led[i].nval + led[i].nerr + led[i].nstop;
        if (s == 0) ++lost;
        if (s > 1) ++sigbad;
        errs += led[i].nerr + led[i].nstop;
    }
    std::size_t work_after = mpi::get_work_count();
    int nthr = __builtin_popcountll(g_st_threads.load());
    std::printf("%s gated=%zu done_at_wait=%d issued_at_wait=%d lost=%d multi=%d errs=%d premature=%d badsum=%d work_after=%zu "
                "total=%d chained=%d chain_bad=%d chain_in_cb=%d st_reg=%d st_hits=%d st_inline_add=%d st_threads=%d\n",
        g_hang_line.c_str(), gated.size(), done_at_wait, issued_at_wait, lost, sigbad, errs, g_premature.load(),
        g_badsum.load() + 0, work_after, total, m, cbad, g_chain_in_cb.load(), g_st_reg.load(), g_st_hits.load(), g_st_inline_add.load(), nthr);
    std::fflush(stdout);
    if (lost)
    {
        std::printf("%s hang=1 phase=5\n", g_hang_line.c_str());
        std::fflush(stdout);
        _exit(4);
    }
    g_phase = 6;
    // a second enable/disable cycle must work (balanced enable/disable)
    run_on_pika([] { mpi::stop_polling(); });
    g_phase = 7;
    pika::finalize();
    pika::stop();
    pika::verif::hook.store(nullptr, std::memory_order_release);
    g_finished = true;
    std::printf("%s shutdown=ok\n", g_hang_line.c_str());
    std::fflush(stdout);
    return 0;
}

// ------------------------------------------------------------------ ERR
static int do_err(int mode, bool pool, int nops, char* argv0)
{
    std::ostringstream hl;
    hl << "OUT ERR m" << mode << "p" << (pool ? 1 : 0);
    g_hang_line = hl.str();
    start_watchdog(40);
    std::vector<Ledger> led(nops);
    g_led = &led;
    MPI_Comm comm;
    MPI_Comm_dup(MPI_COMM_WORLD, &comm);
    MPI_Comm_set_errhandler(comm, MPI_ERRORS_RETURN);
    start_runtime(mode, pool, argv0);
    run_on_pika([] { mpi::start_polling(mpi::exception_mode::no_handler); });
    std::vector<std::unique_ptr<Op>> ops(nops);
    int* data = nullptr;
    int count = 0;
    for (int k = 0; k < nops; ++k)
    {
        ops[k].reset(new Op(ex::connect(
            mpi::transform_mpi(ex::just(data, count, MPI_DATATYPE_NULL, -1, comm), MPI_Ibcast), Rcv{k})));
        spawn([&ops, k] { ex::start(*ops[k]); });
    }
    for (int i = 0; i < 200 && g_done.load() < nops; ++i) std::this_thread::sleep_for(10ms);
    std::this_thread::sleep_for(150ms);    // a second signal, if any, arrives right after the first
    int nval = 0, nerr = 0, nstop = 0, multi = 0, none = 0;
    for (auto& l : led)
    {
        nval += l.nval;
        nerr += l.nerr;
        nstop += l.nstop;
        int s = l.nval + l.nerr + l.nstop;
        if (s > 1) ++multi;
        if (s == 0) ++none;
    }
    std::printf("%s ops=%d nval=%d nerr=%d nstop=%d multi=%d none=%d\n", g_hang_line.c_str(), nops, nval, nerr,
        nstop, multi, none);
    std::fflush(stdout);
    g_finished = true;
    _exit(0);    // the moved-from receiver may have been signalled twice: do not run the teardown
}

// ------------------------------------------------------------------ TRACE
static int gq_query(void*, MPI_Status* st)
{
    MPI_Status_set_elements(st, MPI_BYTE, 0);
    MPI_Status_set_cancelled(st, 0);
    st->MPI_SOURCE = MPI_UNDEFINED;
    st->MPI_TAG = MPI_UNDEFINED;
    return MPI_SUCCESS;
}
static int gq_free(void*) { return MPI_SUCCESS; }
static int gq_cancel(void*, int) { return MPI_SUCCESS; }

static std::mutex g_lm;
static std::vector<std::string>* g_log = nullptr;    // tokens; a lock scope without effect is blanked at its end
static std::map<std::uint64_t, int> g_ids;    // live MPI_Request handle -> harness id
static std::atomic<int> g_tidctr{0};
static int my_tid()
{
    static thread_local int t = -1;
    if (t < 0) t = g_tidctr++;
    return t;
}
static int id_of(std::uint64_t h)
{
    auto it = g_ids.find(h);
    return it == g_ids.end() ? -1 : it->second;
}
static void hookfn(int site, void const* obj, std::uint64_t a, std::uint64_t b)
{
    if (site < 2001 || site > 2011) return;
    static thread_local std::vector<std::size_t> scope;    // token indices of the current lock scope
    static thread_local bool effect = false;
    static thread_local void* scope_log = nullptr;
    std::lock_guard l(g_lm);
    if (!g_log) return;
    if (scope_log != (void*) g_log)
    {
        scope.clear();
        scope_log = g_log;
        effect = false;
    }
    std::ostringstream o;
    int t = my_tid();
    bool in_scope = true;
    switch (site)
    {
    case 2001: o << "E," << t << "," << id_of(a) << "," << b; in_scope = false; break;
    case 2002: o << "V," << t << "," << id_of(a) << "," << b; effect = true; break;
    case 2003: o << "T," << t << "," << a << "," << id_of(b); effect = true; break;
    case 2004: o << "C," << t << "," << a << "," << b; if (a != b) effect = true; break;
    case 2005:
        o << "P," << t << "," << (std::uint64_t) (std::uintptr_t) obj << "," << id_of(a) << "," << id_of(b);
        break;
    case 2010: o << "X," << t; break;
    case 2006: o << "H," << t << "," << id_of(a) << "," << b; in_scope = false; break;
    case 2008: o << "L," << t; scope.clear(); effect = false; break;
    case 2009: o << "S," << t << "," << a << "," << id_of(b); in_scope = false; break;
    case 2011: o << "R," << t << "," << a << "," << b; in_scope = false; break;
    }
    g_log->push_back(o.str());
    if (in_scope) scope.push_back(g_log->size() - 1);
    if (site == 2010)
    {
        if (!effect)
        {
            for (auto i : scope) (*g_log)[i].clear();
            while (!g_log->empty() && g_log->back().empty()) g_log->pop_back();    // only blanked tokens
        }
        scope.clear();
        effect = false;
    }
}

static std::vector<int> g_calls;    // harness ids in callback order (under g_lm)
static std::atomic<int> g_ncalls{0};

static int do_trace(int mode, int ncases, std::uint64_t seed, char* argv0)
{
    g_hang_line = "OUT TRACE hang";
    start_watchdog(120);
    start_runtime(mode, false, argv0);
    pika::verif::hook.store(&hookfn, std::memory_order_release);
    Rng rng(seed * 7919 + 13);
    for (int cs = 0; cs < ncases; ++cs)
    {
        std::ostringstream hl;
        hl << "OUT TRACE " << cs;
        g_hang_line = hl.str();
        std::vector<std::string> log;
        {
            std::lock_guard l(g_lm);
            g_log = &log;
            g_ids.clear();
            g_calls.clear();
        }
        g_ncalls = 0;
        // the Testany branch (max polling size 1) in a fifth of the cases
        std::size_t psz = (rng.below(5) == 0) ? 1 : 8;
        mpi::detail::set_max_polling_size(psz);
        run_on_pika([] { mpi::start_polling(mpi::exception_mode::no_handler); });
        int nextid = 0, completed = 0;
        std::vector<std::pair<int, MPI_Request>> outstanding;
        std::mutex om;
        auto reg = [&](int count) {
            for (int i = 0; i < count; ++i)
            {
                MPI_Request r;
                MPI_Grequest_start(gq_query, gq_free, gq_cancel, nullptr, &r);
                int id;
                {
                    std::lock_guard l(g_lm);
                    id = nextid++;
                    g_ids[(std::uint64_t) (std::uintptr_t) r] = id;
                }
                {
                    std::lock_guard l(om);
                    outstanding.push_back({id, r});
                }
                std::uint64_t h = (std::uint64_t) (std::uintptr_t) r;
                mpi::detail::add_request_callback(
                    [id, h](int err) {
                        std::lock_guard l(g_lm);
                        g_calls.push_back(err == MPI_SUCCESS ? id : -1000 - id);
                        g_ids.erase(h);
                        ++g_ncalls;
                    },
                    r);
            }
        };
        int rounds = 1 + (int) rng.below(4);
        bool bad = false;
        for (int rd = 0; rd <= rounds && !bad; ++rd)
        {
            bool last = (rd == rounds);
            if (!last)
            {
                int n1 = (rng.below(6) == 0) ? 33 + (int) rng.below(12) : 1 + (int) rng.below(6);
                int n2 = (int) rng.below(5);
                std::thread h([&] { reg(n2); });
                reg(n1);
                h.join();
            }
            // complete a random subset (everything in the last round), in random order
            std::vector<std::pair<int, MPI_Request>> pick;
            {
                std::lock_guard l(om);
                std::vector<std::pair<int, MPI_Request>> keep;
                for (auto& x : outstanding)
                    if (last || rng.below(3) != 0) pick.push_back(x); else keep.push_back(x);
                outstanding.swap(keep);
            }
            for (size_t i = pick.size(); i > 1; --i) std::swap(pick[i - 1], pick[rng.below(i)]);
            for (auto& x : pick)
            {
                {
                    std::lock_guard l(g_lm);
                    log.push_back("D," + std::to_string(x.first));
                }
                MPI_Grequest_complete(x.second);
                ++completed;
                if (rng.below(4) == 0) std::this_thread::sleep_for(std::chrono::microseconds(rng.below(300)));
            }
            for (int i = 0; i < 4000 && g_ncalls.load() < completed; ++i) std::this_thread::sleep_for(1ms);
            if (g_ncalls.load() < completed) bad = true;
            std::this_thread::sleep_for(2ms);    // a duplicate call, if any, would come now
            std::size_t wc = mpi::get_work_count();
            {
                std::lock_guard l(g_lm);
                log.push_back("K," + std::to_string(wc) + "," + std::to_string(g_ncalls.load()));
            }
        }
        std::string calls;
        int dup = 0;
        {
            std::lock_guard l(g_lm);
            g_log = nullptr;
            std::vector<int> c = g_calls;
            std::sort(c.begin(), c.end());
            for (size_t i = 0; i < c.size(); ++i)
            {
                if (i && c[i] == c[i - 1]) ++dup;
                calls += (i ? "," : "") + std::to_string(c[i]);
            }
            if (calls.empty()) calls = "-";
        }
        std::size_t wc = mpi::get_work_count();
        std::string ls;
        for (auto& tk : log)
            if (!tk.empty()) ls += " " + tk;
        std::printf("IN TRACE %d n=%d psz=%zu%s\n", cs, nextid, psz, ls.c_str());
        std::printf("OUT TRACE %d calls=%s dup=%d inflight=%zu lost=%d\n", cs, calls.c_str(), dup, wc,
            completed - g_ncalls.load());
        std::fflush(stdout);
        if (bad || wc != 0)
        {
            std::printf("OUT TRACE %d hang=1 phase=9\n", cs);
            std::fflush(stdout);
            _exit(4);
        }
        // stop_polling finalizes MPI only if pika initialized it; here it just unregisters
        run_on_pika([] { mpi::stop_polling(); });
    }
    pika::verif::hook.store(nullptr, std::memory_order_release);
    pika::finalize();
    pika::stop();
    g_finished = true;
    return 0;
}

// ------------------------------------------------------------------ STRACE (poll_singlethreaded)
// Dedicated one-thread pool + a completion mode with non-inline requests: register_polling installs
// poll_singlethreaded and add_to_request_callback_queue pushes straight into the vectors.  Registrations run
// as tasks ON THE POLLING POOL (as transform_mpi's continues_on(mpi_pool_scheduler) does); the harness thread
// completes the generalized requests.  Every callback logs its entry (B) itself; 2011 (R) is its return.
static int do_strace(int mode, int ncases, std::uint64_t seed, char* argv0)
{
    g_hang_line = "OUT STRACE hang";
    start_watchdog(120);
    start_runtime(mode, true, argv0);
    pika::verif::hook.store(&hookfn, std::memory_order_release);
    Rng rng(seed * 104729 + 5);
    auto on_pool = [](auto&& f) {
        return ex::schedule(ex::thread_pool_scheduler{&pika::resource::get_thread_pool(mpi::get_pool_name())}) |
            ex::then(std::forward<decltype(f)>(f));
    };
    for (int cs = 0; cs < ncases; ++cs)
    {
        std::ostringstream hl;
        hl << "OUT STRACE " << cs;
        g_hang_line = hl.str();
        std::vector<std::string> log;
        {
            std::lock_guard l(g_lm);
            g_log = &log;
            g_ids.clear();
            g_calls.clear();
        }
        g_ncalls = 0;
        run_on_pika([] { mpi::start_polling(mpi::exception_mode::no_handler); });
        int nextid = 0, completed = 0;
        std::vector<std::pair<int, MPI_Request>> outstanding;
        std::mutex om;
        auto reg = [&](int count) {
            for (int i = 0; i < count; ++i)
            {
                MPI_Request r;
                MPI_Grequest_start(gq_query, gq_free, gq_cancel, nullptr, &r);
                int id;
                std::uint64_t h = (std::uint64_t) (std::uintptr_t) r;
                {
                    std::lock_guard l(g_lm);
                    id = nextid++;
                    g_ids[h] = id;
                }
                mpi::detail::add_request_callback(
                    [id, h](int err) {
                        std::lock_guard l(g_lm);
                        if (g_log) g_log->push_back("B," + std::to_string(id) + "," + (err == MPI_SUCCESS ? "0" : "1"));
                        g_calls.push_back(err == MPI_SUCCESS ? id : -1000 - id);
                        auto it = g_ids.find(h);
                        if (it != g_ids.end() && it->second == id) g_ids.erase(it);
                        ++g_ncalls;
                    },
                    r);
                {
                    std::lock_guard l(om);
                    outstanding.push_back({id, r});
                }
            }
        };
        int rounds = 1 + (int) rng.below(4);
        bool bad = false;
        for (int rd = 0; rd <= rounds && !bad; ++rd)
        {
            bool last = (rd == rounds);
            std::atomic<int> async_done{1};
            if (!last)
            {
                int n1 = (rng.below(6) == 0) ? 33 + (int) rng.below(12) : 1 + (int) rng.below(6);
                int n2 = (int) rng.below(5);
                tt::sync_wait(on_pool([&reg, n1] { reg(n1); }));
                if (n2 > 0)
                {
                    // a second batch registers while the harness thread is completing requests
                    async_done = 0;
                    ex::start_detached(on_pool([&reg, &async_done, n2] {
                        reg(n2);
                        async_done = 1;
                    }));
                }
            }
            // complete a random subset (everything in the last round), in random order
            std::vector<std::pair<int, MPI_Request>> pick;
            auto take = [&](bool all) {
                std::lock_guard l(om);
                std::vector<std::pair<int, MPI_Request>> keep;
                for (auto& x : outstanding)
                    if (all || rng.below(3) != 0) pick.push_back(x); else keep.push_back(x);
                outstanding.swap(keep);
            };
            if (last)
            {
                take(true);
            }
            else
                take(false);
            for (size_t i = pick.size(); i > 1; --i) std::swap(pick[i - 1], pick[rng.below(i)]);
            for (auto& x : pick)
            {
                {
                    std::lock_guard l(g_lm);
                    log.push_back("D," + std::to_string(x.first));
                }
                MPI_Grequest_complete(x.second);
                ++completed;
                if (rng.below(4) == 0) std::this_thread::sleep_for(std::chrono::microseconds(rng.below(300)));
            }
            for (int i = 0; i < 4000 && !async_done.load(); ++i) std::this_thread::sleep_for(1ms);
            if (!async_done.load()) bad = true;
            for (int i = 0; i < 4000 && g_ncalls.load() < completed; ++i) std::this_thread::sleep_for(1ms);
            if (g_ncalls.load() < completed) bad = true;
            std::this_thread::sleep_for(2ms);    // a duplicate call, if any, would come now
            {
                // read the counter and log the checkpoint in one step of the log order
                std::lock_guard l(g_lm);
                std::size_t wc = mpi::get_work_count();
                log.push_back("K," + std::to_string(wc) + "," + std::to_string(g_ncalls.load()));
            }
        }
        std::string calls;
        int dup = 0;
        {
            std::lock_guard l(g_lm);
            g_log = nullptr;
            std::vector<int> c = g_calls;
            std::sort(c.begin(), c.end());
            for (size_t i = 0; i < c.size(); ++i)
            {
                if (i && c[i] == c[i - 1]) ++dup;
                calls += (i ? "," : "") + std::to_string(c[i]);
            }
            if (calls.empty()) calls = "-";
        }
        std::size_t wc = mpi::get_work_count();
        std::string ls;
        for (auto& tk : log)
            if (!tk.empty()) ls += " " + tk;
        std::printf("IN STRACE %d n=%d psz=1%s\n", cs, nextid, ls.c_str());
        std::printf("OUT STRACE %d calls=%s dup=%d inflight=%zu lost=%d\n", cs, calls.c_str(), dup, wc,
            completed - g_ncalls.load());
        std::fflush(stdout);
        if (bad || wc != 0)
        {
            std::printf("OUT STRACE %d hang=1 phase=9\n", cs);
            std::fflush(stdout);
            _exit(4);
        }
        run_on_pika([] { mpi::stop_polling(); });
    }
    pika::verif::hook.store(nullptr, std::memory_order_release);
    pika::finalize();
    pika::stop();
    g_finished = true;
    return 0;
}

// ------------------------------------------------------------------ MTPOOL (polling pool chosen by the user)
// Public API only: a pool "mpi2" with W PUs created through init_params::rp_callback, start_polling(no_handler,
// "mpi2"), operations through transform_mpi whose MPI function starts a generalized request (completion is in
// the hands of the harness).  register_pool() sets enable_pool_ for ANY non-default pool; with non-inline
// requests the poller must not run in single-threaded (lock-free) mode unless that pool has ONE worker.
//   phase 1 (the model's two-thread witness, Properties_C20 C20_single_second_thread_wrong_callback): ops 0, 1
//     registered in this order, r0 completed.  Timing perturbation through the hooks only: the thread that gets
//     the Testany hit (2009) is kept there (bounded) until ANOTHER thread has finished a compact_vectors that
//     removed a slot (2004 size change, 2010).  With one thread, or with the multi-threaded poller, 2009 never
//     fires / nobody else compacts and the hold times out or is not entered.
//   phase 2 (free running): n operations started from concurrent tasks, completed in seeded random order.
// Monitors (harness side): set_value of op k before MPI_Grequest_complete(r_k) = premature; never signalled = lost.
static int g_mt_w = 2;
static bool g_mt_nohold = false;    // "free": no timing perturbation at all (statistical reproduction)
static void mt_rp_cb(pika::resource::partitioner& rp, pika::program_options::variables_map const&)
{
    rp.create_thread_pool("mpi2", pika::resource::scheduling_policy::local_priority_fifo);
    int n = 0;
    for (auto const& s : rp.sockets())
        for (auto const& c : s.cores())
            for (auto const& p : c.pus())
            {
                if (n >= 1 && n <= g_mt_w) rp.add_resource(p, "mpi2");
                ++n;
            }
}
static std::atomic<int> g_mt_single{-1};               // single_thread_mode_ as seen at hook 2001 (last value)
static std::atomic<int> g_mt_single_seen{0}, g_mt_multi_seen{0};
static std::atomic<std::uint64_t> g_mt_threads{0};     // OS threads at 2001(single)/2002/2009
static std::atomic<int> g_mt_hold_armed{0}, g_mt_held{0}, g_mt_hold_ok{0};
static std::atomic<int> g_mt_compact_seq{0};           // number of finished compactions that removed a slot
static std::atomic<int> g_mt_compact_tid{-1};
static std::atomic<int> g_mt_nreg{0};
static thread_local bool tl_mt_shrunk = false;
static void mt_hook(int site, void const*, std::uint64_t a, std::uint64_t b)
{
    switch (site)
    {
    case 2001:
        ++g_mt_nreg;
        g_mt_single = (int) b;
        if (b == 1)
        {
            ++g_mt_single_seen;
            g_mt_threads |= (1ull << (my_tid() & 63));
        }
        else
            ++g_mt_multi_seen;
        break;
    case 2002:
        if (g_mt_single.load() == 1) g_mt_threads |= (1ull << (my_tid() & 63));
        break;
    case 2004: tl_mt_shrunk = (a != b); break;
    case 2010:
        if (tl_mt_shrunk)
        {
            g_mt_compact_tid = my_tid();
            ++g_mt_compact_seq;
        }
        tl_mt_shrunk = false;
        break;
    case 2009:
    {
        g_mt_threads |= (1ull << (my_tid() & 63));
        int one = 1;
        if (g_mt_hold_armed.compare_exchange_strong(one, 0))
        {
            ++g_mt_held;
            int seq0 = g_mt_compact_seq.load();
            auto t0 = std::chrono::steady_clock::now();
            while (std::chrono::steady_clock::now() - t0 < 1500ms)
            {
                if (g_mt_compact_seq.load() != seq0 && g_mt_compact_tid.load() != my_tid())
                {
                    ++g_mt_hold_ok;
                    break;
                }
            }
        }
        break;
    }
    }
}

static std::vector<std::atomic<std::uint64_t>>* g_mt_handle = nullptr;    // op -> MPI_Request handle (0 = MPI call not made yet)
static std::vector<std::atomic<int>>* g_mt_completed = nullptr;         // op -> the harness has completed its request
static std::atomic<int> g_mt_premature{0};
static void mt_on_value(int op)
{
    if (!(*g_mt_completed)[op].load()) ++g_mt_premature;
}

static int do_mtpool(int mode, int W, int n, std::uint64_t seed, char* argv0)
{
    std::ostringstream hl;
    hl << "OUT MTPOOL m" << mode << "w" << W << " n=" << n;
    g_hang_line = hl.str();
    start_watchdog(60);
    g_mt_w = W;
    Rng rng(seed * 6151 + mode * 17 + W);
    int const total = 2 + n;
    std::vector<Ledger> led(total);
    g_led = &led;
    std::vector<std::atomic<std::uint64_t>> handle(total);
    std::vector<std::atomic<int>> completed(total);
    g_mt_handle = &handle;
    g_mt_completed = &completed;
    g_on_value = &mt_on_value;
    {
        static std::string a0 = argv0, a1 = "--pika:threads=" + std::to_string(W + 2),
                           a2 = "--pika:mpi-completion-mode=" + std::to_string(mode);
        static char const* av[] = {a0.c_str(), a1.c_str(), a2.c_str(), nullptr};
        pika::init_params p;
        p.rp_callback = &mt_rp_cb;
        pika::start(nullptr, 3, av, p);
    }
    std::size_t pool_threads = pika::resource::get_thread_pool("mpi2").get_os_thread_count();
    pika::verif::hook.store(&mt_hook, std::memory_order_release);
    g_phase = 1;
    run_on_pika([] { mpi::start_polling(mpi::exception_mode::no_handler, "mpi2"); });
    g_phase = 2;
    static std::vector<std::unique_ptr<Op>> ops;
    ops.clear();
    ops.resize(total);
    for (int k = 0; k < total; ++k)
        ops[k].reset(new Op(ex::connect(mpi::transform_mpi(ex::just(k),
                                            [](int k, MPI_Request* r) {
                                                MPI_Grequest_start(gq_query, gq_free, gq_cancel, nullptr, r);
                                                (*g_mt_handle)[k].store((std::uint64_t) (std::uintptr_t) *r);
                                            }),
            Rcv{k})));
    auto complete = [&](int k) {
        completed[k].store(1);
        MPI_Grequest_complete((MPI_Request) (std::uintptr_t) handle[k].load());
    };
    auto signals = [&](int k) { return led[k].nval + led[k].nerr + led[k].nstop; };
    auto wait_for = [&](auto&& pred, int ms) {
        for (int i = 0; i < ms * 4 && !pred(); ++i) std::this_thread::sleep_for(250us);
        return pred();
    };
    // ---- phase 1
    bool inl = (mode & 1) != 0, yw = (mode & 56) == 0;
    int ph1_premature = 0, ph1_lost = 0, ph1_multi = 0, ph1_reg = 0;
    {
        bool ok = true;
        for (int k = 0; k < 2 && ok; ++k)
        {
            int reg0 = g_mt_nreg.load();
            spawn([k] { ex::start(*ops[k]); });
            // registered with the poller (yield_while never registers: the task polls MPI_Test itself)
            ok = wait_for([&] { return handle[k].load() != 0 && (yw || g_mt_nreg.load() > reg0); }, 5000);
        }
        ph1_reg = ok ? 1 : 0;
        std::this_thread::sleep_for(2ms);    // both push_backs done (2002 follows 2001 on the same thread at once)
        g_mt_hold_armed = g_mt_nohold ? 0 : 1;
        if (handle[0].load()) complete(0);
        wait_for([&] { return signals(0) > 0; }, 4000);
        std::this_thread::sleep_for(5ms);
        ph1_premature = g_mt_premature.load();
        g_mt_hold_armed = 0;
        if (handle[1].load()) complete(1);
        wait_for([&] { return signals(0) > 0 && signals(1) > 0; }, 3000);
        for (int k = 0; k < 2; ++k)
        {
            if (signals(k) == 0) ++ph1_lost;
            if (signals(k) > 1) ++ph1_multi;
        }
    }
    g_phase = 3;
    // ---- phase 2: free running (skipped when phase 1 already broke the poller's bookkeeping)
    int ph2_lost = 0, ph2_multi = 0, ph2_premature = 0;
    if (ph1_lost == 0 && ph1_premature == 0 && ph1_multi == 0)
    {
        std::vector<int> order;
        for (int k = 2; k < total; ++k) order.push_back(k);
        for (size_t i = order.size(); i > 1; --i) std::swap(order[i - 1], order[rng.below(i)]);
        for (int k : order) spawn([k] { ex::start(*ops[k]); });
        std::vector<int> todo = order;
        for (size_t i = todo.size(); i > 1; --i) std::swap(todo[i - 1], todo[rng.below(i)]);
        auto t0 = std::chrono::steady_clock::now();
        while (!todo.empty() && std::chrono::steady_clock::now() - t0 < 20s)
        {
            std::vector<int> rest;
            for (int k : todo)
            {
                if (handle[k].load() == 0) { rest.push_back(k); continue; }
                complete(k);
                if (rng.below(3) == 0) std::this_thread::sleep_for(std::chrono::microseconds(rng.below(200)));
            }
            todo.swap(rest);
            if (!todo.empty()) std::this_thread::sleep_for(200us);
        }
        wait_for([&] { return g_done.load() >= total; }, 8000);
        for (int k = 2; k < total; ++k)
        {
            if (signals(k) == 0) ++ph2_lost;
            if (signals(k) > 1) ++ph2_multi;
        }
        ph2_premature = g_mt_premature.load() - ph1_premature;
    }
    int errs = 0;
    for (int k = 0; k < total; ++k) errs += led[k].nerr + led[k].nstop;
    std::size_t work_after = mpi::get_work_count();
    int nthr = __builtin_popcountll(g_mt_threads.load());
    std::printf("%s ph1 signals op0=%d op1=%d\n", g_hang_line.c_str(), signals(0), signals(1));
    std::printf("%s pool_threads=%zu inline=%d single_regs=%d queued_regs=%d single_threads=%d ph1_reg=%d held=%d other_thread_compacted=%d "
                "ph1_premature=%d ph1_lost=%d ph1_multi=%d ph2_premature=%d ph2_lost=%d ph2_multi=%d errs=%d work_after=%zu\n",
        g_hang_line.c_str(), pool_threads, inl ? 1 : 0, g_mt_single_seen.load(), g_mt_multi_seen.load(), nthr, ph1_reg,
        g_mt_held.load(), g_mt_hold_ok.load(), ph1_premature, ph1_lost, ph1_multi, ph2_premature, ph2_lost, ph2_multi, errs,
        work_after);
    std::fflush(stdout);
    if (ph1_lost || ph2_lost || work_after != 0 || ph1_premature || ph2_premature)
    {
        g_finished = true;
        _exit(0);    // the poller's bookkeeping is broken: stop_polling / shutdown would wait for ever
    }
    g_phase = 6;
    run_on_pika([] { mpi::stop_polling(); });
    g_phase = 7;
    pika::finalize();
    pika::stop();
    pika::verif::hook.store(nullptr, std::memory_order_release);
    g_finished = true;
    std::printf("%s shutdown=ok\n", g_hang_line.c_str());
    std::fflush(stdout);
    return 0;
}

// ------------------------------------------------------------------ POLLOFF
static int do_polloff(int mode, bool pool, char* argv0)
{
    std::ostringstream hl;
    hl << "OUT POLLOFF m" << mode << "p" << (pool ? 1 : 0);
    g_hang_line = hl.str();
    start_watchdog(30);
    start_runtime(mode, pool, argv0);
    static std::atomic<int> called{0};
    int on = -1;
    for (int cyc = 0; cyc < 3; ++cyc)
    {
        run_on_pika([] { mpi::start_polling(mpi::exception_mode::no_handler); });
        if (cyc == 0 && (mode & 56) != 0)
        {
            // while enabled a completed request IS picked up
            MPI_Request r;
            MPI_Grequest_start(gq_query, gq_free, gq_cancel, nullptr, &r);
            MPI_Grequest_complete(r);
            run_on_pika([r] { mpi::detail::add_request_callback([](int) { ++called; }, r); });
            for (int i = 0; i < 400 && called.load() == 0; ++i) std::this_thread::sleep_for(5ms);
            on = called.load();
        }
        run_on_pika([] { mpi::stop_polling(); });
    }
    // A worker that fetched the polling function just before stop_polling cleared it may still
    // perform that one poll after stop_polling returned (benign, not against the property).  So:
    // let such stragglers drain first, and only report "still polling" when two independent
    // requests, registered well apart, are both picked up after polling was disabled.
    int picked = 0;
    for (int attempt = 0; attempt < 2; ++attempt)
    {
        std::this_thread::sleep_for(400ms);
        called = 0;
        MPI_Request r;
        MPI_Grequest_start(gq_query, gq_free, gq_cancel, nullptr, &r);
        MPI_Grequest_complete(r);
        run_on_pika([r] { mpi::detail::add_request_callback([](int) { ++called; }, r); });
        std::this_thread::sleep_for(150ms);
        if (called.load() == 0) break;
        ++picked;
    }
    called = (picked == 2) ? 1 : 0;
    std::printf("%s polled_while_on=%d polled_after_off=%d\n", g_hang_line.c_str(), on, called.load());
    std::fflush(stdout);
    g_finished = true;
    _exit(0);    // one request is (deliberately) stuck in flight: no orderly shutdown
}

// ------------------------------------------------------------------ WAITQ
// pika::wait() / runtime shutdown against requests with SLOW continuations.
// Every round: n "burst" pairs + one "tail" pair of self-addressed Irecv/Isend through transform_mpi, each followed
// by a `then` stage that spins (seeded: 3..7 ms for the operation of a pair that is posted first and has to be
// completed by the poller, 0.3..2 ms for the other one) before it records completion.  One operation of every pair -
// the receive; for half of the large pairs the send, which then needs the receive to complete - is posted up front
// (it cannot complete before its partner exists: >= n+1 requests are outstanding at once); the partners of the
// burst pairs are posted by tasks at seeded moments 1..10 ms later (two or three clusters per round, so that several
// requests complete at the same time and are handed from the worker that tested them to the other polling
// workers), the partner of the tail pair only after the whole burst has been delivered (so one request completes
// alone).  EVERY posting task is spawned before the main OS thread calls pika::wait() (last round of the
// shutdown variant: pika::finalize(); pika::stop()) - while the burst is being posted - and the per-request ledger
// is read immediately after that call returns.
// Ledger per request (one atomic each): 0 nothing, 1 posted (the MPI call is being made), 2 continuation entered,
// 3 completion recorded.  In addition every running continuation samples the global activity count - the number
// pika::wait() and shutdown consult - against the number of continuations that are running at that moment.
namespace wq {
    static std::vector<std::atomic<int>>* st = nullptr;
    static std::vector<std::atomic<int>>* runs = nullptr;      // per op: how often its continuation stage ran
    static std::vector<std::atomic<int>>* issued = nullptr;    // per pair: the send is being posted
    static std::vector<std::vector<int>> sbuf, rbuf;
    static std::vector<int> dur_us;
    static std::atomic<int> E{0}, D{0}, early_posted{0};
    static std::atomic<long> min_slack{1 << 20};
    static std::atomic<int> zero_seen{0}, order_bad{0}, premature{0}, badsum{0};
    // observation hooks of the real poller
    static std::atomic<int> h_reg{0}, h_tested{0}, h_ready{0}, h_loop2{0}, h_single{0}, cur_out{0}, max_out{0};
    static std::atomic<std::uint64_t> cb_threads{0};

    static void hook(int site, void const*, std::uint64_t, std::uint64_t)
    {
        switch (site)
        {
        case 2001:
        {
            ++h_reg;
            int c = ++cur_out;
            int m = max_out.load();
            while (c > m && !max_out.compare_exchange_weak(m, c)) {}
            break;
        }
        case 2003: ++h_tested; break;
        case 2006:
            ++h_ready;
            --cur_out;
            cb_threads |= (1ull << (my_tid() & 63));
            break;
        case 2012: ++h_loop2; break;
        case 2009:
            ++h_single;
            ++h_tested;
            --cur_out;
            cb_threads |= (1ull << (my_tid() & 63));
            break;
        }
    }

    // the MPI call itself: op 2p = receive of pair p, op 2p+1 = its send
    struct Post
    {
        int op;
        bool early;
        int operator()(void* b, int c, MPI_Datatype t, int peer, int tag, MPI_Comm comm, MPI_Request* r) const
        {
            int e = 0;
            if (!(*st)[op].compare_exchange_strong(e, 1)) ++order_bad;    // posted twice
            if (early) ++early_posted;
            if (op & 1)
            {
                (*issued)[op / 2].store(1);
                return MPI_Isend(b, c, t, peer, tag, comm, r);
            }
            return MPI_Irecv(b, c, t, peer, tag, comm, r);
        }
    };

    // the slow continuation
    static void cont(int op)
    {
        ++(*runs)[op];
        int prev = (*st)[op].exchange(2);
        if (prev != 1) ++order_bad;    // entered without having been posted, or entered twice
        ++E;
        auto t_end = std::chrono::steady_clock::now() + std::chrono::microseconds(dur_us[op]);
        do {
            // continuations that entered before the first load and have not left at the third load were
            // running when the count was read; each of them is covered by its own unit of the count (its
            // request, not yet un-counted, or the task it runs in)
            int eb = E.load();
            std::size_t c = pika::threads::detail::get_global_activity_count();
            int da = D.load();
            long slack = (long) c - (long) (eb - da);
            long m = min_slack.load();
            while (slack < m && !min_slack.compare_exchange_weak(m, slack)) {}
            if (c == 0) ++zero_seen;
            for (int i = 0; i < 400; ++i) __builtin_ia32_pause();
        } while (std::chrono::steady_clock::now() < t_end);
        if (!(op & 1))
        {
            int k = op / 2;
            if (!(*issued)[k].load()) ++premature;
            auto& r = rbuf[k];
            for (size_t i = 0; i < r.size(); ++i)
                if (r[i] != pattern(k, i))
                {
                    ++badsum;
                    break;
                }
        }
        (*st)[op].store(3);
        ++D;
    }
}    // namespace wq

static int do_waitq(int mode, bool pool, int n, int rounds, std::uint64_t seed, int final_shutdown, char* argv0)
{
    using clk = std::chrono::steady_clock;
    Rng rng(seed * 7561 + mode * 131 + (pool ? 17 : 0) + 3);
    std::ostringstream hl;
    hl << "OUT WAITQ m" << mode << "p" << (pool ? 1 : 0) << "f" << final_shutdown;
    std::string const tag = hl.str();
    g_hang_line = tag;
    start_watchdog(120);
    int const per = n + 1;    // n burst pairs + the tail pair
    int const npairs = rounds * per;
    int const total = 2 * npairs;
    std::vector<Ledger> led(total);
    g_led = &led;
    g_on_value = nullptr;
    std::vector<std::atomic<int>> st(total), runs(total), issued(npairs);
    wq::st = &st;
    wq::runs = &runs;
    wq::issued = &issued;
    wq::sbuf.resize(npairs);
    wq::rbuf.resize(npairs);
    wq::dur_us.resize(total);
    std::vector<int> send_first(npairs, 0);    // which operation of the pair is posted up front
    for (int p = 0; p < npairs; ++p)
    {
        size_t len = (rng.below(5) == 0) ? 20000 + rng.below(50000) : 1 + rng.below(600);
        wq::sbuf[p].resize(len);
        wq::rbuf[p].assign(len, -1);
        for (size_t i = 0; i < len; ++i) wq::sbuf[p][i] = pattern(p, i);
        send_first[p] = (len >= 20000 && rng.below(2) == 0) ? 1 : 0;
        wq::dur_us[2 * p + send_first[p]] = 3000 + (int) rng.below(4001);
        wq::dur_us[2 * p + 1 - send_first[p]] = 300 + (int) rng.below(1701);
    }
    start_runtime(mode, pool, argv0);
    pika::verif::hook.store(&wq::hook, std::memory_order_release);
    g_phase = 1;
    run_on_pika([] { mpi::start_polling(mpi::exception_mode::no_handler); });
    g_phase = 2;
    MPI_Comm comm = MPI_COMM_WORLD;
    static std::vector<std::unique_ptr<Op>> ops;
    ops.clear();
    ops.resize(total);
    bool stopped = false;
    for (int rd = 0; rd < rounds; ++rd)
    {
        int const base = rd * per;
        for (int j = 0; j < per; ++j)
        {
            int p = base + j;
            ops[2 * p].reset(new Op(ex::connect(
                ex::unique_any_sender<>(
                    mpi::transform_mpi(ex::just((void*) wq::rbuf[p].data(), (int) wq::rbuf[p].size(), MPI_INT, 0,
                                           1000 + p, comm),
                        wq::Post{2 * p, send_first[p] == 0}) |
                    ex::then([p] { wq::cont(2 * p); })),
                Rcv{2 * p})));
            ops[2 * p + 1].reset(new Op(ex::connect(
                ex::unique_any_sender<>(
                    mpi::transform_mpi(ex::just((void*) wq::sbuf[p].data(), (int) wq::sbuf[p].size(), MPI_INT, 0,
                                           1000 + p, comm),
                        wq::Post{2 * p + 1, send_first[p] == 1}) |
                    ex::then([p] { wq::cont(2 * p + 1); })),
                Rcv{2 * p + 1})));
        }
        bool const shut = final_shutdown && rd == rounds - 1;
        int const early_target = base + per;              // every up-front operation up to this round has been posted
        int const burst_target = 2 * base + 2 * n;        // everything before the tail pair has been recorded
        auto const t0 = clk::now();
        for (int j = 0; j < per; ++j)
        {
            int e = 2 * (base + j) + send_first[base + j];
            spawn([e] { ex::start(*ops[e]); });
        }
        int const nclust = 2 + (int) rng.below(2);
        std::uint64_t cl[3] = {1000 + rng.below(9000), 1000 + rng.below(9000), 1000 + rng.below(9000)};
        for (int j = 0; j < n; ++j)
        {
            int l = 2 * (base + j) + 1 - send_first[base + j];
            auto at = t0 + std::chrono::microseconds(cl[rng.below(nclust)] + rng.below(150));
            spawn([l, at, early_target] {
                auto dl = clk::now() + 20s;
                while ((wq::early_posted.load() < early_target || clk::now() < at) && clk::now() < dl)
                    pika::this_thread::yield();
                ex::start(*ops[l]);
            });
        }
        {
            int l = 2 * (base + n) + 1 - send_first[base + n];
            spawn([l, burst_target, early_target] {
                auto dl = clk::now() + 20s;
                while ((wq::early_posted.load() < early_target || wq::D.load() < burst_target) && clk::now() < dl)
                    pika::this_thread::yield();
                ex::start(*ops[l]);
            });
        }
        g_phase = 10 + rd;
        // every posting task exists: neither call may return before all of them have run, every request they
        // post has completed and its continuation has run
        if (!shut) { pika::wait(); }
        else
        {
            pika::finalize();
            pika::stop();
            stopped = true;
        }
        int s_posted = 0, s_entered = 0, s_recorded = 0;
        int const upto = 2 * (base + per);
        for (int o = 0; o < upto; ++o)
        {
            int v = st[o].load();
            if (v >= 1) ++s_posted;
            if (v >= 2) ++s_entered;
            if (v == 3) ++s_recorded;
        }
        std::size_t act = pika::threads::detail::get_global_activity_count();
        std::printf("%s.r%d kind=%s expected=%d posted=%d entered=%d recorded=%d undelivered=%d unposted=%d act_after=%zu "
                    "tested=%d ready=%d\n",
            tag.c_str(), rd, shut ? "shutdown" : "wait", upto, s_posted, s_entered, s_recorded, s_posted - s_recorded,
            upto - s_posted, act, wq::h_tested.load(), wq::h_ready.load());
        std::fflush(stdout);
        g_phase = 100 + rd;
        // whatever the call did: the next round starts from a quiescent state
        for (int i = 0; i < 800 && wq::D.load() < upto; ++i) std::this_thread::sleep_for(25ms);
        if (wq::D.load() < upto)
        {
            std::printf("%s hang=1 phase=%d recorded=%d expected=%d\n", tag.c_str(), g_phase.load(), wq::D.load(), upto);
            std::fflush(stdout);
            _exit(4);
        }
        if (!stopped) std::this_thread::sleep_for(2ms);    // a duplicate signal, if any, would come now
    }
    int lost = 0, sigbad = 0, errs = 0;
    for (int i = 0; i < total; ++i)
    {
        int s = led[i].nval + led[i].nerr + led[i].nstop;
        if (s == 0) ++lost;
        if (s > 1 || runs[i].load() > 1) ++sigbad;
        errs += led[i].nerr + led[i].nstop;
    }
    std::size_t work_after = mpi::get_work_count();
    int const ready = wq::h_ready.load(), loop2 = wq::h_loop2.load();
    std::printf("%s summary rounds=%d total=%d lost=%d multi=%d errs=%d premature=%d badsum=%d order_bad=%d min_slack=%ld "
                "zero_seen=%d work_after=%zu reg=%d tested=%d ready=%d loop1=%d loop2=%d single_hits=%d max_out=%d "
                "cb_threads=%d\n",
        tag.c_str(), rounds, total, lost, sigbad, errs, wq::premature.load(), wq::badsum.load(), wq::order_bad.load(),
        wq::min_slack.load(), wq::zero_seen.load(), work_after, wq::h_reg.load(), wq::h_tested.load(), ready,
        ready - loop2, loop2, wq::h_single.load(), wq::max_out.load(), __builtin_popcountll(wq::cb_threads.load()));
    std::fflush(stdout);
    if (stopped)
    {
        // the runtime is gone while polling was (deliberately) never disabled: no orderly teardown
        g_finished = true;
        std::printf("%s shutdown=ok\n", tag.c_str());
        std::fflush(stdout);
        _exit(0);
    }
    g_phase = 200;
    run_on_pika([] { mpi::stop_polling(); });
    g_phase = 201;
    pika::finalize();
    pika::stop();
    pika::verif::hook.store(nullptr, std::memory_order_release);
    g_finished = true;
    std::printf("%s shutdown=ok\n", tag.c_str());
    std::fflush(stdout);
    return 0;
}

int main(int argc, char** argv)
{
    if (argc < 3) return 2;
    int provided = 0;
    MPI_Init_thread(&argc, &argv, MPI_THREAD_MULTIPLE, &provided);
    if (provided != MPI_THREAD_MULTIPLE)
    {
        std::printf("HARNESS-ERROR no MPI_THREAD_MULTIPLE\n");
        return 3;
    }
    std::string cmd = argv[1];
    int mode = std::atoi(argv[2]);
    int rc = 2;
    if (cmd == "proc" && argc >= 6)
        rc = do_proc(mode, std::atoi(argv[3]) != 0, std::atoi(argv[4]), std::strtoull(argv[5], nullptr, 10), argv[0]);
    else if (cmd == "err" && argc >= 5)
        rc = do_err(mode, std::atoi(argv[3]) != 0, std::atoi(argv[4]), argv[0]);
    else if (cmd == "trace" && argc >= 5)
        rc = do_trace(mode, std::atoi(argv[3]), std::strtoull(argv[4], nullptr, 10), argv[0]);
    else if (cmd == "strace" && argc >= 5)
        rc = do_strace(mode, std::atoi(argv[3]), std::strtoull(argv[4], nullptr, 10), argv[0]);
    else if (cmd == "polloff" && argc >= 4)
        rc = do_polloff(mode, std::atoi(argv[3]) != 0, argv[0]);
    else if (cmd == "mtpool" && argc >= 6)
    {
        g_mt_nohold = argc >= 7 && std::string(argv[6]) == "free";
        rc = do_mtpool(mode, std::atoi(argv[3]), std::atoi(argv[4]), std::strtoull(argv[5], nullptr, 10), argv[0]);
    }
    else if (cmd == "waitq" && argc >= 8)
        rc = do_waitq(mode, std::atoi(argv[3]) != 0, std::atoi(argv[4]), std::atoi(argv[5]),
            std::strtoull(argv[6], nullptr, 10), std::atoi(argv[7]), argv[0]);
    MPI_Finalize();
    return rc;
}
