// C07 runtime harness: the public pika::condition_variable / condition_variable_any on pika tasks inside the
// running runtime (4 workers, up to 10 waiters), notifiers on tasks and on plain OS threads, user lock types
// M = std::unique_lock<pika::mutex> (condition_variable), S = std::unique_lock<spinlock> (condition_variable_any),
// C = a hand-written BasicLockable around pika::mutex (condition_variable_any).  Seeded busy-wait perturbation at
// the hooks before the internal lock is taken (707), between the cv's unlock and suspend (705/706) and inside
// notify_one/notify_all (603/704).
// Monitors (the property itself, evaluated on the implementation):
//   all   a notify_all issued by a notifier that holds U while c waiters are registered wakes those c
//   one   a notify_one issued while >= 1 waiter is registered wakes at least one
//   pred  wait(lock, pred) returns with pred() true; every wait returns owning the lock
//   timed wait_for without notification reports timeout not before the deadline; notified well before the
//         deadline it does not report timeout; the pred form returns pred()
//   stop  wait(lock, stop_token, pred) returns once stop is requested (false), returns true when pred is set,
//         returns pred() at once when stop was requested before
//   timed_stop  wait_for / wait_until (lock, stop_token, t, pred): returns pred() owning the lock; at once when stop
//         was requested before the call or is requested between the callback registration and the re-check (from
//         inside the first pred()); otherwise at the deadline at the latest (on tasks a timed wait sleeps until its
//         deadline, notified or not) and — when nobody set the predicate or requested stop — not before it
//   slow  (c07_rt <seed> <n> slow) user lock whose unlock() stays busy 1..2 ms after releasing the mutex, notifier
//         blocked on that mutex notifies as soon as it owns it: every waiter registered before must wake
// A round that does not complete within the watchdog is a lost notification.
#include <pika/config.hpp>
#include <pika/init.hpp>
#include <pika/modules/errors.hpp>
#include <pika/modules/threading.hpp>
#include <pika/synchronization/condition_variable.hpp>
#include <pika/synchronization/mutex.hpp>
#include <pika/synchronization/stop_token.hpp>
#include <pika/threading_base/thread_data.hpp>

#include <atomic>
#include <chrono>
#include <cstdint>
#include <cstdio>
#include <csignal>
#include <cstdlib>
#include <memory>
#include <mutex>
#include <sstream>
#include <string>
#include <thread>
#include <unistd.h>
#include <vector>

using clk = std::chrono::steady_clock;
// User lock shared by several waiting TASKS: a spin lock that gives the worker back while it waits.  pika's own
// concurrency::detail::spinlock busy-waits without yielding; as a user lock shared by as many tasks as there are workers it
// deadlocks with the stop-token forms of wait, which yield while holding the re-acquired user lock (the stop_callback
// destructor waits for its in-flight callback with yield_k): the holder sits in the queue of a worker that spins for the
// lock for ever (seen 2 times in ~150 runs under load, diagnosed with gdb: three waiters in spin_k on the user lock, the
// holder pending).  A lock that never yields starves a cooperative scheduler whatever it protects, so that combination is
// not a condition-variable failure; the scenarios keep a spinning BasicLockable, but a cooperative one.
struct spinlock
{
    pika::concurrency::detail::spinlock m;
    void lock()
    {
        while (!m.try_lock())
        {
            if (pika::threads::detail::get_self_ptr()) pika::this_thread::yield();
            else std::this_thread::yield();
        }
    }
    bool try_lock() { return m.try_lock(); }
    void unlock() { m.unlock(); }
};

struct Rng
{
    std::uint64_t x;
    explicit Rng(std::uint64_t seed) : x(seed * 0x9E3779B97F4A7C15ull + 0x1234567ull) {}
    std::uint64_t next()
    {
        std::uint64_t z = (x += 0x9E3779B97F4A7C15ull);
        z = (z ^ (z >> 30)) * 0xBF58476D1CE4E5B9ull;
        z = (z ^ (z >> 27)) * 0x94D049BB133111EBull;
        return z ^ (z >> 31);
    }
    std::uint64_t below(std::uint64_t n) { return n ? next() % n : 0; }
    bool chance(unsigned num, unsigned den) { return below(den) < num; }
};
static std::uint64_t mix_seed(std::uint64_t z)
{
    z = (z ^ (z >> 30)) * 0xBF58476D1CE4E5B9ull + 0x632BE59BD9B4E019ull;
    z = (z ^ (z >> 27)) * 0x94D049BB133111EBull;
    return z ^ (z >> 31);
}

static std::atomic<std::uint64_t> g_pert{0};
static std::atomic<std::uint64_t> g_cnt{0};
static std::atomic<long> g_heartbeat{0};
static std::atomic<int> g_case{-1};

static void spin_for_ns(std::uint64_t ns)
{
    auto t0 = clk::now();
    while ((std::uint64_t) std::chrono::duration_cast<std::chrono::nanoseconds>(clk::now() - t0).count() < ns) {}
}
static void hookfn(int site, void const*, std::uint64_t, std::uint64_t)
{
    if (site != 705 && site != 706 && site != 707 && site != 603 && site != 704) return;
    std::uint64_t s = g_pert.load(std::memory_order_relaxed);
    if (!s) return;
    std::uint64_t z = s ^ (g_cnt.fetch_add(1, std::memory_order_relaxed) * 0x9E3779B97F4A7C15ull) ^ ((std::uint64_t) site << 32);
    z = (z ^ (z >> 30)) * 0xBF58476D1CE4E5B9ull;
    z ^= z >> 27;
    if ((z & 3) == 0) spin_for_ns(((z >> 8) % ((site == 705 || site == 706 || site == 707) ? 60 : 15)) * 1000);
}

// a user-defined BasicLockable (condition_variable_any accepts any lock with lock()/unlock())
struct custom_lock
{
    pika::mutex& m;
    bool owned = false;
    explicit custom_lock(pika::mutex& m_) : m(m_) {}
    void lock() { m.lock(); owned = true; }
    void unlock() { owned = false; m.unlock(); }
    bool owns_lock() const { return owned; }
};

// does the calling task own the mutex?  pika::mutex reports a second lock() by its owner as a deadlock error
static bool owns(pika::mutex& m)
{
    pika::error_code ec(pika::throwmode::lightweight);
    m.lock(ec);
    if (!ec) { m.unlock(); return false; }    // we acquired it: we did not own it
    return ec.value() == (int) pika::error::deadlock;
}
static bool owns(spinlock&) { return true; }    // checked through the occupancy counter instead

template <typename F>
static bool wait_until_true(F f, int ms)
{
    auto t0 = clk::now();
    while (!f())
    {
        if (pika::threads::detail::get_self_ptr()) pika::this_thread::yield();
        else std::this_thread::sleep_for(std::chrono::microseconds(50));
        if (clk::now() - t0 > std::chrono::milliseconds(ms)) return false;
    }
    return true;
}

struct Outcome
{
    bool ok = true;
    std::string detail;
    void fail(std::string const& d) { if (ok) { ok = false; detail = d; } }
};

// ---------------------------------------------------------------------------------------------------
template <typename Mutex, typename CV, typename MakeLock>
static Outcome run_notify(char mode, int K, bool pred_form, bool os_notifier, Rng& rng, MakeLock make_lock)
{
    // mode 'a' = notify_all rounds, 'o' = notify_one rounds
    struct Shared
    {
        Mutex m;
        CV cv;
        int registered = 0;    // waiters inside their wait (registered under U)
        long gen = 0;          // notify_all: generation; notify_one: tickets
        long tickets = 0;
        int inside = 0;
        std::atomic<int> done{0}, bad_own{0}, bad_pred{0}, occ_bad{0};
    };
    auto sh = std::make_shared<Shared>();
    Outcome out;
    std::vector<pika::thread> th;
    for (int t = 0; t < K; ++t)
        th.emplace_back([sh, t, mode, pred_form, make_lock, delay = rng.below(200)] {
            spin_for_ns(delay * 1000);
            auto lk = make_lock(sh->m);
            lk.lock();
            ++sh->registered;
            if (mode == 'a')
            {
                long my = sh->gen;
                if (pred_form) sh->cv.wait(lk, [&] { return sh->gen != my; });
                else while (sh->gen == my) sh->cv.wait(lk);
                if (sh->gen == my) ++sh->bad_pred;
            }
            else
            {
                if (pred_form) sh->cv.wait(lk, [&] { return sh->tickets > 0; });
                else while (sh->tickets == 0) sh->cv.wait(lk);
                if (sh->tickets <= 0) ++sh->bad_pred;
                --sh->tickets;
            }
            --sh->registered;
            // ownership on return
            if (!lk.owns_lock() || !owns(sh->m)) ++sh->bad_own;
            if (++sh->inside != 1) ++sh->occ_bad;
            spin_for_ns(300);
            --sh->inside;
            lk.unlock();
            ++sh->done;
            ++g_heartbeat;
        });
    auto notifier = [sh, mode, K, &out, make_lock] {
        auto t_idle = clk::now();
        while (sh->done.load() < K)
        {
            if (clk::now() - t_idle > std::chrono::seconds(6)) { out.fail("notifier gave up: remaining waiters never registered"); return; }
            auto lk = make_lock(sh->m);
            lk.lock();
            int c = sh->registered;
            int done_before = sh->done.load();
            if (c == 0) { lk.unlock(); if (pika::threads::detail::get_self_ptr()) pika::this_thread::yield(); else std::this_thread::yield(); continue; }
            if (mode == 'a') ++sh->gen; else ++sh->tickets;
            lk.unlock();
            t_idle = clk::now();
            // every one of the c registered waiters released U before we acquired it
            if (mode == 'a') sh->cv.notify_all(); else sh->cv.notify_one();
            int need = mode == 'a' ? c : 1;
            if (!wait_until_true([&] { return sh->done.load() >= done_before + need; }, 4000))
            {
                std::ostringstream d;
                d << (mode == 'a' ? "notify_all" : "notify_one") << " issued while " << c << " waiters were registered woke only "
                  << (sh->done.load() - done_before);
                out.fail(d.str());
                return;
            }
        }
    };
    if (os_notifier)
    {
        std::atomic<bool> fin{false};
        std::thread nt([&] { notifier(); fin = true; });
        bool okw = wait_until_true([&] { return fin.load(); }, 8000);
        if (!okw) { out.fail("OS-thread notifier did not finish (lost notification or blocked notify)"); std::printf("OUT RT %d ok=0 detail=hang %s\n", g_case.load(), out.detail.c_str()); std::fflush(stdout); _exit(0); }
        nt.join();
    }
    else notifier();
    if (!out.ok)
    {
        // blocked waiters cannot be cancelled: report and leave
        std::printf("OUT RT %d ok=0 detail=%s\n", g_case.load(), out.detail.c_str());
        std::fflush(stdout);
        _exit(0);
    }
    for (auto& x : th) x.join();
    if (sh->bad_own) out.fail("a wait returned without owning the user lock");
    if (sh->bad_pred) out.fail("a wait loop / predicate wait ended although the predicate is false");
    if (sh->occ_bad) out.fail("two tasks inside the user lock after wait returned");
    return out;
}

// ---------------------------------------------------------------------------------------------------
static Outcome run_timed(int variant, Rng& rng)
{
    struct Shared
    {
        pika::mutex m;
        pika::condition_variable cv;
        bool flag = false;
        bool registered = false;
        std::atomic<bool> done{false};
        int status = -1;    // 0 no_timeout / pred true, 1 timeout / pred false
        clk::time_point t_call, t_ret;
        bool own_ok = true;
    };
    auto sh = std::make_shared<Shared>();
    Outcome out;
    bool pred_form = rng.chance(1, 2);
    int dur_ms = variant == 0 ? 2 + (int) rng.below(4) : 80;
    pika::thread w([sh, pred_form, dur_ms] {
        std::unique_lock<pika::mutex> lk(sh->m);
        sh->registered = true;
        sh->t_call = clk::now();
        if (pred_form)
        {
            bool r = sh->cv.wait_for(lk, std::chrono::milliseconds(dur_ms), [&] { return sh->flag; });
            sh->status = r ? 0 : 1;
            if (r != sh->flag) sh->status = 2;    // returned something else than pred()
        }
        else
        {
            auto st = sh->cv.wait_for(lk, std::chrono::milliseconds(dur_ms));
            sh->status = st == pika::cv_status::no_timeout ? 0 : st == pika::cv_status::timeout ? 1 : 3;
        }
        sh->t_ret = clk::now();
        sh->own_ok = lk.owns_lock() && owns(sh->m);
        lk.unlock();
        sh->done = true;
        ++g_heartbeat;
    });
    clk::time_point t_notified{};
    if (variant == 1)
    {
        // notify as soon as the waiter is registered (it released U inside wait_for)
        bool seen = wait_until_true([&] { std::unique_lock<pika::mutex> lk(sh->m); return sh->registered; }, 4000);
        if (!seen) out.fail("timed waiter never registered");
        {
            std::unique_lock<pika::mutex> lk(sh->m);
            sh->flag = true;
        }
        sh->cv.notify_one();
        t_notified = clk::now();
    }
    if (!wait_until_true([&] { return sh->done.load(); }, 6000))
    {
        std::printf("OUT RT %d ok=0 detail=timed wait never returned\n", g_case.load());
        std::fflush(stdout);
        _exit(0);
    }
    w.join();
    if (!sh->own_ok) out.fail("timed wait returned without owning the user lock");
    if (sh->status == 2) out.fail("timed predicate wait returned a value different from pred()");
    if (sh->status == 3) out.fail("timed wait returned cv_status::error");
    auto elapsed = std::chrono::duration_cast<std::chrono::microseconds>(sh->t_ret - sh->t_call).count();
    if (variant == 0)
    {
        if (sh->status != 1) out.fail("timed wait that nobody notified did not report timeout");
        if (elapsed < dur_ms * 1000L - 200) out.fail("timed wait reported timeout before its deadline");
    }
    else
    {
        // the notification returned at t_notified; the deadline is >= t_call + dur.  Only judge when the margin is generous
        auto margin = std::chrono::duration_cast<std::chrono::milliseconds>((sh->t_call + std::chrono::milliseconds(dur_ms)) - t_notified).count();
        if (margin >= 30 && sh->status == 1)
            out.fail(pred_form ? "timed predicate wait returned false although the predicate was set and notified before the deadline" :
                                 "timed wait reported timeout although it was notified well before the deadline");
    }
    return out;
}

// ---------------------------------------------------------------------------------------------------
static Outcome run_stop(int variant, int K, Rng& rng)
{
    struct Shared
    {
        pika::mutex m;
        pika::condition_variable_any cv;
        pika::stop_source ss;
        bool flag = false;
        int registered = 0;
        std::atomic<int> done{0}, bad{0}, bad_own{0};
    };
    auto sh = std::make_shared<Shared>();
    Outcome out;
    if (variant == 2) sh->ss.request_stop();    // requested before the wait: returns pred() at once
    std::vector<pika::thread> th;
    for (int t = 0; t < K; ++t)
        th.emplace_back([sh, variant, delay = rng.below(100)] {
            spin_for_ns(delay * 1000);
            std::unique_lock<pika::mutex> lk(sh->m);
            ++sh->registered;
            bool r = sh->cv.wait(lk, sh->ss.get_token(), [&] { return sh->flag; });
            if (r != sh->flag) ++sh->bad;                    // returns the value of the predicate
            if (variant == 0 && r) ++sh->bad;                // stop requested, predicate never set
            if (variant == 1 && !r) ++sh->bad;               // predicate set, no stop
            if (!lk.owns_lock() || !owns(sh->m)) ++sh->bad_own;
            lk.unlock();
            ++sh->done;
            ++g_heartbeat;
        });
    if (variant != 2)
    {
        // wait until some (not necessarily all) waiters are registered, then act: late arrivals must see the
        // request / the predicate themselves
        int want = 1 + (int) rng.below(K);
        wait_until_true([&] { std::unique_lock<pika::mutex> lk(sh->m); return sh->registered >= want; }, 4000);
        if (variant == 0) sh->ss.request_stop();
        else
        {
            { std::unique_lock<pika::mutex> lk(sh->m); sh->flag = true; }
            sh->cv.notify_all();
        }
    }
    if (!wait_until_true([&] { return sh->done.load() >= K; }, 5000))
    {
        std::printf("OUT RT %d ok=0 detail=stop-token wait did not return after %s (%d of %d returned)\n", g_case.load(),
            variant == 0 ? "request_stop" : variant == 1 ? "predicate+notify_all" : "an earlier request_stop", sh->done.load(), K);
        std::fflush(stdout);
        _exit(0);
    }
    for (auto& x : th) x.join();
    if (sh->bad) out.fail("stop-token wait returned a wrong value");
    if (sh->bad_own) out.fail("stop-token wait returned without owning the user lock");
    return out;
}

// ---------------------------------------------------------------------------------------------------
// timed stop-token wait: condition_variable_any::wait_for / wait_until (lock, stop_token, t, pred).
// What the code guarantees on pika tasks (a timed cv wait yields inside sleep_until until its deadline; a
// notification only changes the reason reported by the detail layer):
//   variant 0 "stop_after_reg"  request_stop by a thread that saw the waiter registered (counter under U, so the waiter
//             has passed the re-check and released U): returns pred() (= false) at the deadline at the latest
//   variant 1 "pred_notify"     predicate set + notify_all before the deadline: returns true at the deadline at the latest
//   variant 2 "nobody"          nobody notifies: returns pred() = false, not before the deadline
//   variant 3 "stop_on_entry"   stop requested before the call: returns pred() (true or false) at once
//   variant 4 "stop_in_pred"    the first evaluation of pred() (made after the stop_callback was constructed, before
//             the re-check under the internal lock) requests stop: the re-check sees it, returns false at once
//   variant 5 "pred_on_entry"   predicate already true: returns true at once
// "at once" = within half of a 3 s deadline.  Every return: value == pred(), user lock owned; a false return
// without stop requested only at/after the deadline.
template <typename MakeLock>
static Outcome run_timed_stop(int variant, int K, bool until_form, Rng& rng, MakeLock make_lock)
{
    struct Shared
    {
        pika::mutex m;
        pika::condition_variable_any cv;
        pika::stop_source ss;
        bool flag = false;
        int registered = 0;
        int inside = 0;
        std::atomic<int> done{0}, bad_val{0}, bad_exp{0}, bad_own{0}, early{0}, late{0}, occ_bad{0}, nostop{0};
    };
    auto sh = std::make_shared<Shared>();
    Outcome out;
    bool const at_once = variant >= 3;
    int const dur_ms = at_once ? 3000 : 40 + (int) rng.below(50);
    bool const flag0 = variant == 5 || (variant == 3 && rng.chance(1, 2));
    sh->flag = flag0;
    if (variant == 3) sh->ss.request_stop();
    std::vector<pika::thread> th;
    for (int t = 0; t < K; ++t)
        th.emplace_back([sh, variant, until_form, dur_ms, at_once, make_lock, delay = rng.below(100)] {
            spin_for_ns(delay * 1000);
            auto lk = make_lock(sh->m);
            lk.lock();
            ++sh->registered;
            int calls = 0;
            auto pred = [&] {
                // user code, called with U held
                if (variant == 4 && calls++ == 0) sh->ss.request_stop();
                return sh->flag;
            };
            auto t0 = clk::now();
            bool r = until_form ? sh->cv.wait_until(lk, sh->ss.get_token(), t0 + std::chrono::milliseconds(dur_ms), pred) :
                                  sh->cv.wait_for(lk, sh->ss.get_token(), std::chrono::milliseconds(dur_ms), pred);
            auto el = std::chrono::duration_cast<std::chrono::microseconds>(clk::now() - t0).count();
            // U is held again (checked below): flag is read under U.  The flag is only ever set, stop only ever requested.
            bool const stopped = sh->ss.stop_requested();
            if (r != sh->flag) ++sh->bad_val;                                   // returns the value of the predicate
            // false means: deadline reached, or stop requested (also when the helper was slow and this waiter's
            // deadline passed before the request / the predicate write)
            if (!r && !stopped && el < dur_ms * 1000L - 200) ++sh->early;
            bool expect = variant == 5 || (variant == 3 && sh->flag);
            if (variant >= 2 && r != expect) ++sh->bad_exp;                     // variants 0/1: covered by the two rules above
            if ((variant == 3 || variant == 4) && !stopped) ++sh->nostop;       // requested by this very task before / inside
            if (at_once && el > dur_ms * 500L) ++sh->late;
            if (!lk.owns_lock() || !owns(sh->m)) ++sh->bad_own;
            if (++sh->inside != 1) ++sh->occ_bad;
            spin_for_ns(300);
            --sh->inside;
            lk.unlock();
            ++sh->done;
            ++g_heartbeat;
        });
    if (variant == 0 || variant == 1)
    {
        int want = 1 + (int) rng.below(K);
        bool under = rng.chance(1, 2);
        wait_until_true([&] { std::unique_lock<pika::mutex> lk(sh->m); return sh->registered >= want; }, 4000);
        // every registered waiter has released U, i.e. it is past the re-check and queued (or returned already)
        if (variant == 0)
        {
            if (under) { std::unique_lock<pika::mutex> lk(sh->m); sh->ss.request_stop(); }
            else sh->ss.request_stop();
        }
        else
        {
            std::unique_lock<pika::mutex> lk(sh->m);
            sh->flag = true;
            if (!under) lk.unlock();
            sh->cv.notify_all();
        }
    }
    // the deadline is at most dur_ms after the last waiter's call; generous watchdog on top
    if (!wait_until_true([&] { return sh->done.load() >= K; }, dur_ms + 6000))
    {
        std::printf("OUT RT %d ok=0 detail=timed stop-token wait did not return by its deadline + 6 s (%d of %d returned)\n", g_case.load(),
            sh->done.load(), K);
        std::fflush(stdout);
        _exit(0);
    }
    for (auto& x : th) x.join();
    if (sh->bad_val) out.fail("timed stop-token wait returned a value different from pred()");
    if (sh->bad_exp) out.fail("timed stop-token wait returned a wrong value");
    if (sh->nostop) out.fail("timed stop-token wait: stop_requested() false after the request");
    if (sh->early) out.fail("timed stop-token wait returned false before its deadline although stop was not requested");
    if (sh->late) out.fail("timed stop-token wait returned late: stop requested before the re-check / predicate true on entry must return at once");
    if (sh->bad_own) out.fail("timed stop-token wait returned without owning the user lock");
    if (sh->occ_bad) out.fail("two tasks inside the user lock after the timed stop-token wait returned");
    return out;
}

// ---------------------------------------------------------------------------------------------------
// predicate wait: notifications arrive while the predicate is still false; the wait must not return before
// the predicate has been set
static Outcome run_pred(int K, bool any, Rng& rng)
{
    struct Shared
    {
        pika::mutex m;
        pika::condition_variable cv;
        pika::condition_variable_any cva;
        bool flag = false;
        int registered = 0;
        std::atomic<int> done{0}, early{0}, bad_own{0};
    };
    auto sh = std::make_shared<Shared>();
    Outcome out;
    std::vector<pika::thread> th;
    for (int t = 0; t < K; ++t)
        th.emplace_back([sh, any] {
            std::unique_lock<pika::mutex> lk(sh->m);
            ++sh->registered;
            if (any) sh->cva.wait(lk, [&] { return sh->flag; });
            else sh->cv.wait(lk, [&] { return sh->flag; });
            if (!sh->flag) ++sh->early;
            if (!lk.owns_lock() || !owns(sh->m)) ++sh->bad_own;
            lk.unlock();
            ++sh->done;
            ++g_heartbeat;
        });
    wait_until_true([&] { std::unique_lock<pika::mutex> lk(sh->m); return sh->registered >= 1; }, 4000);
    int spur = 1 + (int) rng.below(3);
    for (int i = 0; i < spur; ++i)
    {
        if (any) sh->cva.notify_all(); else sh->cv.notify_all();    // predicate still false
        for (int y = 0; y < 20; ++y) pika::this_thread::yield();
    }
    {
        std::unique_lock<pika::mutex> lk(sh->m);
        if (sh->done.load() > 0) out.fail("predicate wait returned although the predicate was never set");
        sh->flag = true;
    }
    // late arrivals see the flag themselves; the registered ones need this notification
    if (any) sh->cva.notify_all(); else sh->cv.notify_all();
    if (!wait_until_true([&] { return sh->done.load() >= K; }, 5000))
    {
        std::printf("OUT RT %d ok=0 detail=predicate wait did not return after the predicate was set and notify_all (%d of %d)\n",
            g_case.load(), sh->done.load(), K);
        std::fflush(stdout);
        _exit(0);
    }
    for (auto& x : th) x.join();
    if (sh->early) out.fail("predicate wait returned although the predicate was never set");
    if (sh->bad_own) out.fail("predicate wait returned without owning the user lock");
    return out;
}

// ---------------------------------------------------------------------------------------------------
// slow-unlock scenario: "wait releases the user lock and becomes a waiter atomically w.r.t. notifiers".
// The user lock is a legitimate BasicLockable whose unlock() keeps the CALLER busy for 1..2 ms AFTER the
// underlying mutex has been released (think: statistics, logging, a lock hierarchy checker).  A notifier is
// blocked on that same underlying mutex while a waiter holds it; it gets the mutex the moment the waiter's
// wait releases it, changes the predicate and notifies at once (under the lock or right after unlocking).
// Every waiter that registered (under U) before the notifier acquired U has released U inside its wait, so
// it must be woken by that notification although it is still busy inside its own unlock().  Forms: plain
// wait(Lock&) in a loop, wait(Lock&, Pred), wait(Lock&, stop_token, Pred) (woken by notify or by
// request_stop), wait_for(Lock&, 300 ms) (must not report timeout for a notification that returned >= 150 ms
// before the deadline).  Underlying mutex: pika::mutex or the spinlock (then also an OS-thread notifier).
template <typename Mutex>
struct slow_unlock_lock
{
    Mutex& m;
    std::uint64_t busy_ns;
    bool owned = false;
    slow_unlock_lock(Mutex& m_, std::uint64_t busy) : m(m_), busy_ns(busy) {}
    void lock() { m.lock(); owned = true; }
    void unlock()
    {
        owned = false;
        m.unlock();               // from here on another thread may own the user lock
        spin_for_ns(busy_ns);     // ... while the caller is still inside unlock()
    }
    bool owns_lock() const { return owned; }
};

static std::int64_t now_ns() { return std::chrono::duration_cast<std::chrono::nanoseconds>(clk::now().time_since_epoch()).count(); }

template <typename Mutex>
static Outcome run_slow(char form, char mode, int K, bool under_lock, bool os_notifier, Rng& rng)
{
    // form 'w' wait(lk) loop, 'p' wait(lk, pred), 's' wait(lk, stop_token, pred), 't' wait_for(lk, 300ms) loop
    // mode 'a' notify_all + generation, 'o' notify_one + tickets, 'r' request_stop (form 's' only)
    struct Shared
    {
        Mutex m;
        pika::condition_variable_any cv;
        pika::stop_source ss;
        int registered = 0;
        long gen = 0;
        long tickets = 0;
        int inside = 0;
        std::atomic<long> notified_gen{0};
        std::atomic<std::int64_t> notified_ns{0};
        std::atomic<int> done{0}, bad_own{0}, bad_pred{0}, occ_bad{0}, bad_ret{0}, bad_timeout{0}, bad_status{0};
    };
    auto sh = std::make_shared<Shared>();
    Outcome out;
    static constexpr int timed_ms = 300, timed_margin_ms = 150;
    std::vector<pika::thread> th;
    for (int t = 0; t < K; ++t)
        th.emplace_back([sh, form, mode, delay = rng.below(200), busy = 1000000 + rng.below(1000000), hold = 30000 + rng.below(150000)] {
            spin_for_ns(delay * 1000);
            slow_unlock_lock<Mutex> lk(sh->m, busy);
            lk.lock();
            ++sh->registered;
            long const my = sh->gen;
            auto ready = [&] { return mode == 'o' ? sh->tickets > 0 : sh->gen != my; };    // mode 'r': never true
            spin_for_ns(hold);    // U stays held for a moment: the notifier is blocked on U when the wait releases it
            bool r = true;
            if (form == 'w') { while (!ready()) sh->cv.wait(lk); }
            else if (form == 'p') sh->cv.wait(lk, ready);
            else if (form == 's') r = sh->cv.wait(lk, sh->ss.get_token(), ready);
            else
                while (!ready())
                {
                    auto deadline = clk::now() + std::chrono::milliseconds(timed_ms);
                    auto st = sh->cv.wait_for(lk, std::chrono::milliseconds(timed_ms));
                    if (st != pika::cv_status::timeout && st != pika::cv_status::no_timeout) ++sh->bad_status;
                    if (st == pika::cv_status::timeout && sh->notified_gen.load(std::memory_order_acquire) > my)
                    {
                        // a notify_all issued after this waiter had released U returned at notified_ns
                        auto dl = std::chrono::duration_cast<std::chrono::nanoseconds>(deadline.time_since_epoch()).count();
                        if (dl - sh->notified_ns.load() >= timed_margin_ms * 1000000LL) ++sh->bad_timeout;
                    }
                }
            if (mode == 'r') { if (r || ready()) ++sh->bad_ret; }    // stop requested, predicate never set
            else
            {
                if (!ready()) ++sh->bad_pred;
                if (!r) ++sh->bad_ret;
                if (mode == 'o') --sh->tickets;
            }
            --sh->registered;
            if (!lk.owns_lock() || !owns(sh->m)) ++sh->bad_own;
            if (++sh->inside != 1) ++sh->occ_bad;
            spin_for_ns(300);
            --sh->inside;
            lk.unlock();
            ++sh->done;
            ++g_heartbeat;
        });
    auto notifier = [sh, mode, K, under_lock, &out] {
        auto t_idle = clk::now();
        auto relax = [] { if (pika::threads::detail::get_self_ptr()) pika::this_thread::yield(); else std::this_thread::yield(); };
        while (sh->done.load() < K)
        {
            if (clk::now() - t_idle > std::chrono::seconds(8)) { out.fail("notifier gave up: remaining waiters never registered"); return; }
            std::unique_lock<Mutex> lk(sh->m);    // plain lock on the same mutex: blocks while a waiter holds U
            int c = sh->registered;
            int done_before = sh->done.load();
            if (c == 0) { lk.unlock(); relax(); continue; }
            long g = 0;
            if (mode == 'a') g = ++sh->gen; else if (mode == 'o') ++sh->tickets;
            if (!under_lock) lk.unlock();
            // each of the c registered waiters released U inside its wait before we acquired U (it may still be
            // busy inside its unlock()): this notification must reach it
            if (mode == 'a') sh->cv.notify_all(); else if (mode == 'o') sh->cv.notify_one(); else sh->ss.request_stop();
            if (mode == 'a') { sh->notified_ns.store(now_ns()); sh->notified_gen.store(g, std::memory_order_release); }
            if (under_lock) lk.unlock();
            t_idle = clk::now();
            int need = mode == 'a' ? c : mode == 'o' ? 1 : K - done_before;
            if (!wait_until_true([&] { return sh->done.load() >= done_before + need; }, 8000))
            {
                std::ostringstream d;
                d << (mode == 'a' ? "notify_all" : mode == 'o' ? "notify_one" : "request_stop") << " issued by the thread that acquired the user lock while "
                  << c << " waiters were registered (inside a wait, user lock released by a slow unlock()) woke only "
                  << (sh->done.load() - done_before) << " of " << need;
                if (auto* pool = &pika::resource::get_thread_pool("default"))
                    d << " [pool threads: staged=" << pool->get_thread_count_staged(std::size_t(-1), false)
                      << " pending=" << pool->get_thread_count_pending(std::size_t(-1), false)
                      << " active=" << pool->get_thread_count_active(std::size_t(-1), false)
                      << " suspended=" << pool->get_thread_count_suspended(std::size_t(-1), false)
                      << " registered=" << sh->registered << " stop_requested=" << sh->ss.stop_requested() << "]";
                if (std::getenv("C07_DEBUG_PAUSE")) { std::fprintf(stderr, "PAUSED pid=%d %s\n", (int) getpid(), d.str().c_str()); std::fflush(stderr); raise(SIGSTOP); }
                out.fail(d.str());
                return;
            }
        }
    };
    if (os_notifier)
    {
        std::atomic<bool> fin{false};
        std::thread nt([&] { notifier(); fin = true; });
        bool okw = wait_until_true([&] { return fin.load(); }, 20000);
        if (!okw) { std::printf("OUT RT %d ok=0 detail=hang OS-thread notifier did not finish (lost notification or blocked notify)\n", g_case.load()); std::fflush(stdout); _exit(0); }
        nt.join();
    }
    else notifier();
    if (!out.ok)
    {
        std::printf("OUT RT %d ok=0 detail=%s\n", g_case.load(), out.detail.c_str());
        std::fflush(stdout);
        _exit(0);
    }
    for (auto& x : th) x.join();
    if (sh->bad_own) out.fail("a wait returned without owning the user lock");
    if (sh->bad_pred) out.fail("a wait loop / predicate wait ended although the predicate is false");
    if (sh->bad_ret) out.fail("stop-token wait returned a wrong value");
    if (sh->occ_bad) out.fail("two tasks inside the user lock after wait returned");
    if (sh->bad_status) out.fail("timed wait returned cv_status::error");
    if (sh->bad_timeout) out.fail("timed wait reported timeout although it was notified well before the deadline");
    return out;
}

static std::uint64_t g_seed = 1;
static int g_ncases = 100;
static bool g_slow = false;

static void slow_cases()
{
    Rng rng(g_seed ^ 0x51074e10c4ull);
    for (int cs = 0; cs < g_ncases; ++cs)
    {
        g_case = cs;
        g_pert = rng.next() | 1;
        unsigned f = (unsigned) rng.below(32);
        char form = f == 0 ? 't' : "wps"[f % 3];
        char mode = form == 't' ? 'a' : form == 's' ? "aor"[rng.below(3)] : "ao"[rng.below(2)];
        int K = 1 + (int) rng.below(form == 't' ? 2 : 4);
        bool spin = rng.chance(1, 3);                  // underlying mutex: spinlock instead of pika::mutex
        bool osn = spin && rng.chance(1, 2);           // an OS thread can only take the spinlock
        bool under = rng.chance(1, 2);
        std::printf("IN RT %d kind=slow form=%c mode=%s K=%d lock=%c under=%d osnotifier=%d\n", cs, form,
            mode == 'a' ? "all" : mode == 'o' ? "one" : "stop", K, spin ? 'S' : 'M', (int) under, (int) osn);
        std::fflush(stdout);
        Outcome o = spin ? run_slow<spinlock>(form, mode, K, under, osn, rng) : run_slow<pika::mutex>(form, mode, K, under, false, rng);
        std::printf("OUT RT %d ok=%d detail=%s\n", cs, o.ok ? 1 : 0, o.ok ? "-" : o.detail.c_str());
        std::fflush(stdout);
    }
}

int pika_main()
{
    if (g_slow)
    {
        slow_cases();
        pika::finalize();
        return 0;
    }
    Rng rng(g_seed);
    for (int cs = 0; cs < g_ncases; ++cs)
    {
        g_case = cs;
        g_pert = rng.next() | 1;
        unsigned kind = (unsigned) rng.below(12);
        int K = 1 + (int) rng.below(10);
        Outcome o;
        std::ostringstream in;
        if (kind < 5)
        {
            char mode = rng.chance(1, 2) ? 'a' : 'o';
            bool pred_form = rng.chance(1, 2);
            unsigned lock = (unsigned) rng.below(3);
            bool osn = lock == 1 && rng.chance(1, 3);    // an OS thread can only take the spinlock
            in << "IN RT " << cs << " kind=" << (mode == 'a' ? "all" : "one") << " K=" << K << " pred=" << pred_form
               << " lock=" << "MSC"[lock] << " osnotifier=" << osn;
            std::printf("%s\n", in.str().c_str());
            std::fflush(stdout);
            if (lock == 0)
                o = run_notify<pika::mutex, pika::condition_variable>(mode, K, pred_form, false, rng,
                    [](pika::mutex& m) { return std::unique_lock<pika::mutex>(m, std::defer_lock); });
            else if (lock == 1)
                o = run_notify<spinlock, pika::condition_variable_any>(mode, K, pred_form, osn, rng,
                    [](spinlock& m) { return std::unique_lock<spinlock>(m, std::defer_lock); });
            else
                o = run_notify<pika::mutex, pika::condition_variable_any>(mode, K, pred_form, false, rng,
                    [](pika::mutex& m) { return custom_lock(m); });
        }
        else if (kind < 8)
        {
            int variant = (int) rng.below(2);
            in << "IN RT " << cs << " kind=timed variant=" << (variant ? "notified" : "unnotified");
            std::printf("%s\n", in.str().c_str());
            std::fflush(stdout);
            o = run_timed(variant, rng);
        }
        else if (kind == 11)
        {
            static char const* const vn[] = {"stop_after_reg", "pred_notify", "nobody", "stop_on_entry", "stop_in_pred", "pred_on_entry"};
            int variant = (int) rng.below(6);
            bool until_form = rng.chance(1, 2);
            bool custom = rng.chance(1, 2);
            int Kt = 1 + (int) rng.below(4);
            in << "IN RT " << cs << " kind=timed_stop variant=" << vn[variant] << " K=" << Kt << " form=" << (until_form ? "wait_until" : "wait_for")
               << " lock=" << (custom ? 'C' : 'M');
            std::printf("%s\n", in.str().c_str());
            std::fflush(stdout);
            if (custom) o = run_timed_stop(variant, Kt, until_form, rng, [](pika::mutex& m) { return custom_lock(m); });
            else o = run_timed_stop(variant, Kt, until_form, rng, [](pika::mutex& m) { return std::unique_lock<pika::mutex>(m, std::defer_lock); });
        }
        else if (kind == 10)
        {
            bool any = rng.chance(1, 2);
            in << "IN RT " << cs << " kind=pred K=" << K << " any=" << any;
            std::printf("%s\n", in.str().c_str());
            std::fflush(stdout);
            o = run_pred(K, any, rng);
        }
        else
        {
            int variant = (int) rng.below(3);
            in << "IN RT " << cs << " kind=stop variant=" << variant << " K=" << K;
            std::printf("%s\n", in.str().c_str());
            std::fflush(stdout);
            o = run_stop(variant, K, rng);
        }
        std::printf("OUT RT %d ok=%d detail=%s\n", cs, o.ok ? 1 : 0, o.ok ? "-" : o.detail.c_str());
        std::fflush(stdout);
    }
    pika::finalize();
    return 0;
}

int main(int argc, char** argv)
{
    g_seed = mix_seed(argc > 1 ? std::strtoull(argv[1], nullptr, 10) : 1);
    g_ncases = argc > 2 ? std::atoi(argv[2]) : 100;
    g_slow = argc > 3 && std::string(argv[3]) == "slow";    // c07_rt <seed> <n> slow: only the slow-unlock scenario
    pika::verif::hook.store(&hookfn, std::memory_order_release);
    std::thread([] {
        long last = -1;
        int idle = 0;
        for (;;)
        {
            std::this_thread::sleep_for(std::chrono::seconds(1));
            long h = g_heartbeat.load() + 1000000L * g_case.load();
            if (h == last) ++idle; else idle = 0;
            last = h;
            if (idle >= 25)
            {
                std::printf("OUT RT %d ok=0 detail=hang: no progress for 25 s\n", g_case.load());
                std::fflush(stdout);
                _exit(0);
            }
        }
    }).detach();
    char a0[] = "c07_rt";
    char a1[] = "--pika:threads=4";
    char* av[] = {a0, a1, nullptr};
    int ac = 2;
    pika::init_params ip;
    return pika::init(pika_main, ac, av, ip);
}
