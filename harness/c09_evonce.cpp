// C09 LOCKSTEP harness for pika::experimental::event and pika::call_once on plain std::threads
// (default agent, lock-step support of ctl.hpp: 9001 schedulable, 9002/9004/9005 bookkeeping).
//
//   c09_evonce event <seed> <ncases>     wait / set / reset / occurred mixes on one event
//   c09_evonce once  <seed> <ncases>     call_once callers, the callable throws on a generated pattern
//
// Schedulable points (one hooked point = one atomic step of Model/Event.v resp. Model/Once.v; a
// spinlock critical section is ONE step: the hook sits before it, nobody ever parks inside):
//   940 event::wait fast-path load        941 wait: lock, load, enqueue, unlock
//   9001 agent suspend                    916 woken: re-lock, drop own entry, re-test (return | enqueue again)
//   942 event::set store                  943 set: lock, notify_all (swap, resume each), unlock
//   944 reset store (call_once: in once.hpp; event mode: issued by the harness before reset())
//   945 occurred load (issued by the harness before occurred())
//   931 call_once status load             932 status CAS
//   933 the callable (issued by the harness' callable)        934 status store(complete)
//   930 status store(0) after a throw
// A macro step = one released thread running to its next hook, plus the "forced" suspend steps of
// waiters on which the notifier blocks inside default_agent::resume (the notifier holds the
// spinlock there, so only its target may run; the model's token semantics gives the same result:
// resume leaves a token, the target's suspend step consumes it).  After every macro step the
// harness records the view of all threads (<progress>.<site parked at> | <progress>B blocked in
// suspend | D finished); the extracted model replays the schedule and must predict every view,
// i.e. who is blocked, who returned, which caller runs the callable, who retries after a throw.
// Genuine stuck states of the event (everybody blocked, flag not set) are detected on both sides
// and rescued by a controller set() (schedule entry R).  call_once has no legal stuck state.
#include "common/ctl.hpp"

#include <pika/synchronization/event.hpp>
#include <pika/synchronization/once.hpp>

#include <algorithm>
#include <atomic>
#include <cstring>
#include <functional>
#include <memory>
#include <sstream>
#include <string>
#include <thread>
#include <vector>

namespace {
    struct Ls
    {
        std::string sched, views;
        bool stuck = false;
        int macro = 0, forced = 0, rescues = 0, suspensions = 0;
    };

    [[noreturn]] void die(char const* what, char const* mode, int cs, std::string const& in, Ls const& r)
    {
        std::printf("MONITOR %s_lockstep:%s case=%d input=[%s] sched=[%s]\n", mode, what, cs, in.c_str(), r.sched.c_str());
        std::fflush(stdout);
        std::_Exit(0);
    }

    // runs the lock-step loop until every thread is done or a stuck state cannot be rescued
    Ls lockstep(vctl::Controller& ctl, vctl::Rng& rng, std::vector<std::atomic<int>>& pos, char const* mode, int cs,
        std::string const& in, std::function<bool()> rescue)
    {
        Ls r;
        auto view = [&] {
            std::ostringstream v;
            std::lock_guard g(ctl.m);
            for (size_t i = 0; i < ctl.s.size(); ++i)
            {
                auto& x = ctl.s[i];
                if (i) v << ",";
                if (x.st == vctl::DONE) v << "D";
                else if (x.st == vctl::BLOCKED) v << pos[i].load() << (x.waiting_on ? "X" : "B");
                else if (x.st == vctl::PARKED) v << pos[i].load() << "." << x.site;
                else v << "?";
            }
            return v.str();
        };
        if (!ctl.quiesce()) die("harness_start", mode, cs, in, r);
        ctl.release_all_parked();    // leave the START point: every thread runs to its first hook
        int steps = 0;
        for (;;)
        {
            if (!ctl.quiesce()) die("hang", mode, cs, in, r);    // a thread neither parks, blocks nor ends
            // forced step: a resumer blocked on a still running target (parked at 9001)
            int f = -1;
            {
                std::lock_guard l(ctl.m);
                for (auto& x : ctl.s)
                    if (x.st == vctl::BLOCKED && x.waiting_on != nullptr)
                        for (int i = 0; i < (int) ctl.s.size(); ++i)
                            if (ctl.s[i].st == vctl::PARKED && ctl.s[i].agent == x.waiting_on && ctl.s[i].site == 9001) f = i;
            }
            if (++steps > 3000) die("livelock", mode, cs, in, r);
            if (f >= 0)
            {
                r.sched += (r.sched.empty() ? "" : ",") + std::to_string(f) + "f";
                ++r.forced;
                ++r.suspensions;
                ctl.release(f);
                continue;
            }
            r.views += (r.views.empty() ? "" : ";") + view();
            auto p = ctl.parked();
            if (p.empty())
            {
                if (ctl.blocked().empty()) break;    // everybody finished
                if (!rescue || !rescue())
                {
                    r.stuck = true;
                    break;
                }
                r.sched += std::string(r.sched.empty() ? "" : ",") + "R";
                ++r.rescues;
                continue;
            }
            int t = p[rng.below(p.size())];
            if (ctl.site_of(t) == 9001) ++r.suspensions;
            r.sched += (r.sched.empty() ? "" : ",") + std::to_string(t);
            ++r.macro;
            ctl.release(t);
        }
        return r;
    }

    int run_event(std::uint64_t seed, int ncases)
    {
        vctl::Rng rng(seed * 2654435761ull + 17);
        for (int cs = 0; cs < ncases; ++cs)
        {
            int T = 2 + (int) rng.below(4);
            std::vector<std::string> progs(T);
            int style = (int) rng.below(3);    // 0 mixed, 1 many waiters + one setter, 2 set/reset heavy
            for (int t = 0; t < T; ++t)
            {
                int n = 1 + (int) rng.below(4);
                for (int i = 0; i < n; ++i)
                {
                    unsigned x = (unsigned) rng.below(20);
                    char c;
                    if (style == 1) c = t == 0 ? (x < 12 ? 's' : x < 16 ? 'r' : 'o') : (x < 15 ? 'w' : x < 18 ? 'o' : 'r');
                    else if (style == 2) c = x < 6 ? 'w' : x < 12 ? 's' : x < 17 ? 'r' : 'o';
                    else c = x < 8 ? 'w' : x < 13 ? 's' : x < 17 ? 'r' : 'o';
                    progs[t].push_back(c);
                }
            }
            std::ostringstream in;
            in << "IN ELOCK " << cs << " " << T;
            for (auto& p : progs) in << " " << p;
            auto ev = std::make_unique<pika::experimental::event>();
            std::vector<std::atomic<int>> pos(T);
            for (auto& p : pos) p.store(0);
            std::vector<std::string> occ(T);
            Ls r;
            {
                vctl::Controller ctl(T, 916, 945);
                std::vector<std::thread> th;
                for (int t = 0; t < T; ++t)
                    th.emplace_back([&, t] {
                        ctl.begin(t);
                        for (size_t k = 0; k < progs[t].size(); ++k)
                        {
                            pos[t].store((int) k);
                            switch (progs[t][k])
                            {
                            case 'w': ev->wait(); break;
                            case 's': ev->set(); break;
                            case 'r':
                                PIKA_VERIF_POINT(944, ev.get());
                                ev->reset();
                                break;
                            default:
                                PIKA_VERIF_POINT(945, ev.get());
                                occ[t].push_back(ev->occurred() ? '1' : '0');
                                break;
                            }
                        }
                        ctl.end();
                    });
                r = lockstep(ctl, rng, pos, "event", cs, in.str(), [&] {
                    ev->set();    // controller thread: not registered, never parks
                    return true;
                });
                if (r.stuck) die("stuck", "event", cs, in.str(), r);
                for (auto& x : th) x.join();
            }
            std::printf("%s %s\n", in.str().c_str(), r.sched.empty() ? "-" : r.sched.c_str());
            std::printf("OUT ELOCK %d views=%s occ=", cs, r.views.c_str());
            for (int t = 0; t < T; ++t) std::printf("%s%s", t ? "|" : "", occ[t].c_str());
            std::printf("\nSTAT ELOCK %d macro=%d forced=%d rescues=%d susp=%d\n", cs, r.macro, r.forced, r.rescues, r.suspensions);
            std::fflush(stdout);
        }
        return 0;
    }

    struct body_error
    {
    };

    int run_once(std::uint64_t seed, int ncases)
    {
        vctl::Rng rng(seed * 2246822519ull + 29);
        for (int cs = 0; cs < ncases; ++cs)
        {
            int T = 1 + (int) rng.below(5);
            std::vector<int> calls(T);
            for (auto& c : calls) c = 1 + (int) rng.below(2);
            std::string plan;
            int pl = (int) rng.below(5);
            for (int i = 0; i < pl; ++i) plan.push_back(rng.chance(7, 20) ? '1' : '0');
            std::ostringstream in;
            in << "IN OLOCK " << cs << " " << T << " ";
            for (int t = 0; t < T; ++t) in << (t ? "," : "") << calls[t];
            in << " " << (plan.empty() ? "-" : plan);
            auto flag = std::make_unique<pika::once_flag>();
            std::vector<std::atomic<int>> pos(T);
            for (auto& p : pos) p.store(0);
            std::atomic<int> inside{0}, runs{0};
            std::atomic<bool> completed{false};
            std::atomic<int> overlap{0}, ran_twice{0}, ret_early{0};
            std::string log;    // written by the one thread that runs between two hooks of a macro step
            std::mutex logm;
            auto add = [&](char c, int t) {
                std::lock_guard g(logm);
                log.push_back(c);
                log += std::to_string(t);
            };
            Ls r;
            {
                vctl::Controller ctl(T, 916, 945);
                std::vector<std::thread> th;
                for (int t = 0; t < T; ++t)
                    th.emplace_back([&, t] {
                        ctl.begin(t);
                        for (int k = 0; k < calls[t]; ++k)
                        {
                            pos[t].store(k);
                            try
                            {
                                pika::call_once(*flag, [&] {
                                    if (inside.fetch_add(1) != 0) ++overlap;
                                    if (completed.load()) ++ran_twice;
                                    PIKA_VERIF_POINT(933, flag.get());    // the callable is one step (its outcome: the plan)
                                    int run = runs.fetch_add(1);
                                    bool thr = run < (int) plan.size() && plan[run] == '1';
                                    if (inside.fetch_sub(1) != 1) ++overlap;
                                    add(thr ? 'e' : 'E', t);
                                    if (thr) throw body_error{};
                                    completed.store(true);
                                });
                                if (!completed.load()) ++ret_early;
                                add('R', t);
                            }
                            catch (body_error const&)
                            {
                                add('T', t);
                            }
                        }
                        ctl.end();
                    });
                r = lockstep(ctl, rng, pos, "once", cs, in.str(), nullptr);
                if (r.stuck) die("stuck", "once", cs, in.str(), r);
                for (auto& x : th) x.join();
            }
            if (overlap.load()) die("overlap", "once", cs, in.str(), r);
            if (ran_twice.load()) die("ran_after_success", "once", cs, in.str(), r);
            if (ret_early.load()) die("returned_before_finished", "once", cs, in.str(), r);
            std::printf("%s %s\n", in.str().c_str(), r.sched.empty() ? "-" : r.sched.c_str());
            std::printf("OUT OLOCK %d views=%s log=%s\n", cs, r.views.c_str(), log.empty() ? "-" : log.c_str());
            std::printf("STAT OLOCK %d macro=%d forced=%d throws=%d susp=%d callers=%d\n", cs, r.macro, r.forced,
                (int) std::count(log.begin(), log.end(), 'e'), r.suspensions, T);
            std::fflush(stdout);
        }
        return 0;
    }
}    // namespace

int main(int argc, char** argv)
{
    char const* mode = argc > 1 ? argv[1] : "event";
    std::uint64_t seed = argc > 2 ? std::strtoull(argv[2], nullptr, 10) : 1;
    int ncases = argc > 3 ? std::atoi(argv[3]) : 100;
    if (!std::strcmp(mode, "event")) return run_event(seed, ncases);
    return run_once(seed, ncases);
}
