// C07 runtime harness, scenario "several interruptible waits on ONE stop state".
//
// Property text: "a stop-token wait returns once stop is requested".  condition_variable_any::wait(lock,
// stop_token, pred) registers a stop_callback with the token's stop state for the duration of the call and
// removes it when it returns.  With several such waits on tokens of ONE stop_source the registrations of
// different waiters coexist inside the same stop state and come and go in any order.  The scenario drives
// exactly that through the public API only:
//
//   * K = 2..4 waiters W0..W(K-1): pika tasks (user lock unique_lock<pika::mutex> or unique_lock<spinlock>) and
//     plain OS threads (user lock unique_lock<std::mutex>), each with its OWN user mutex and predicate flag, all
//     on one condition_variable_any or each on its own; every waiter uses a token of the SAME stop_source.
//   * registration order is controlled: W(i+1) is started only after W(i) has evaluated its predicate for the
//     first time (the stop_callback is constructed before that) -- or all start at once (order "concurrent").
//   * some waiters LEAVE early, in a seeded order relative to their registration (earliest first, latest first,
//     a middle one first, any permutation of any subset): the controller sets that waiter's flag under its user
//     lock and notifies its cv; the wait must return true within the watchdog.  The others keep waiting (a
//     notify_all on a shared cv only makes them re-evaluate a false predicate).
//   * optionally NEW waiters register while the leavers deregister (both without hand-shake).
//   * after every leaver has returned and was poisoning its dead stack frame, request_stop() is issued (from a
//     pika task or from an OS thread): it must return true, and EVERY remaining waiter must return within the
//     watchdog with the value false (= its predicate), owning its user lock.
//
// Monitors (model independent, the property itself):
//   not_woken_after_other_left   a remaining waiter did not return within 10 s of request_stop's start
//   leaver_no_return             a waiter whose predicate was set + notified did not return within 10 s
//   returned_without_stop        a remaining waiter returned before stop was requested with its predicate false
//   value                        wrong return value (leaver: true, remaining: false) / lock not owned
//   request_stop                 request_stop() returned false / did not return
//   crash                        SIGSEGV/SIGBUS/SIGILL/SIGABRT while the case was running (reported by the handler)
//
// usage: c07_multi <seed> <ncases>            c07_multi one <seed> <index>   (replay of one case)
#include <pika/config.hpp>
#include <pika/init.hpp>
#include <pika/modules/errors.hpp>
#include <pika/modules/threading.hpp>
#include <pika/synchronization/condition_variable.hpp>
#include <pika/synchronization/mutex.hpp>
#include <pika/synchronization/stop_token.hpp>
#include <pika/threading_base/thread_data.hpp>

#include <atomic>
#include <chrono>
#include <csignal>
#include <cstdint>
#include <cstdio>
#include <cstdlib>
#include <cstring>
#include <memory>
#include <mutex>
#include <sstream>
#include <string>
#include <thread>
#include <unistd.h>
#include <vector>

using clk = std::chrono::steady_clock;
using spinlock = pika::concurrency::detail::spinlock;

struct Rng
{
    std::uint64_t x;
    explicit Rng(std::uint64_t seed) : x(seed * 0x9E3779B97F4A7C15ull + 0x1234567ull) {}
    std::uint64_t next()
    {
        std::uint64_t z = (x += 0x9E3779B97F4A7C15ull);
        z = (z ^ (z >> 30)) * 0xBF58476D1CE4E5B9ull;
        z = (z ^ (z >> 27)) * 0x94D049BB133111EBull;
        return z ^ (z >> 31);
    }
    std::uint64_t below(std::uint64_t n) { return n ? next() % n : 0; }
    bool chance(unsigned num, unsigned den) { return below(den) < num; }
};
static std::uint64_t mix_seed(std::uint64_t z)
{
    z = (z ^ (z >> 30)) * 0xBF58476D1CE4E5B9ull + 0x632BE59BD9B4E019ull;
    z = (z ^ (z >> 27)) * 0x94D049BB133111EBull;
    return z ^ (z >> 31);
}

static std::atomic<int> g_case{-1};
static std::atomic<long> g_heartbeat{0};
static char g_order[32] = "none";
static constexpr int WATCHDOG_MS = 10000;

static void spin_for_ns(std::uint64_t ns)
{
    auto t0 = clk::now();
    while ((std::uint64_t) std::chrono::duration_cast<std::chrono::nanoseconds>(clk::now() - t0).count() < ns) {}
}

template <typename F>
static bool wait_until_true(F f, int ms)
{
    auto t0 = clk::now();
    while (!f())
    {
        if (pika::threads::detail::get_self_ptr()) pika::this_thread::yield();
        else std::this_thread::sleep_for(std::chrono::microseconds(50));
        if (clk::now() - t0 > std::chrono::milliseconds(ms)) return false;
    }
    return true;
}

[[noreturn]] static void fail_exit(char const* what, std::string const& detail)
{
    std::printf("OUT MW %d ok=0 what=%s order=%s detail=%s\n", g_case.load(), what, g_order, detail.c_str());
    std::fflush(stdout);
    _exit(0);
}

static void crash_handler(int sig)
{
    char buf[160];
    int n = std::snprintf(buf, sizeof buf, "OUT MW %d ok=0 what=crash order=%s detail=signal %d while the case was running\n",
        g_case.load(), g_order, sig);
    if (n > 0) { ssize_t r = write(1, buf, (size_t) n); (void) r; }
    _exit(0);
}

// overwrite the part of the stack that the returned wait() call (and its stop_callback object) occupied
__attribute__((noinline)) static void poison_stack()
{
    volatile unsigned char pad[3072];
    for (std::size_t i = 0; i < sizeof pad; ++i) pad[i] = 0xA5;
    asm volatile("" ::: "memory");
}

struct Waiter
{
    char kind = 'T';    // 'T' task + pika::mutex, 'S' task + spinlock, 'O' OS thread + std::mutex
    int cv = 0;
    pika::mutex pm;
    spinlock sm;
    std::mutex om;
    bool flag = false;              // the predicate, protected by this waiter's user lock
    std::atomic<int> preds{0};      // evaluations of pred(): >= 1 means the stop_callback has been constructed
    std::atomic<int> ret{-1};       // -1 inside the wait, 0 returned false, 1 returned true
    std::atomic<bool> owned{true}, stop_seen{false}, finished{false};
};

struct Case
{
    std::vector<std::unique_ptr<Waiter>> w;
    std::vector<std::unique_ptr<pika::condition_variable_any>> cvs;
    pika::stop_source ss;
};

template <typename Lock>
__attribute__((noinline)) static bool do_wait(pika::condition_variable_any& cv, Lock& lk, pika::stop_token tok, Waiter& me)
{
    return cv.wait(lk, std::move(tok), [&me] {
        me.preds.fetch_add(1, std::memory_order_acq_rel);
        return me.flag;
    });
}

template <typename Mutex>
static void waiter_body(Case& c, Waiter& me, Mutex& m)
{
    {
        std::unique_lock<Mutex> lk(m);
        bool r = do_wait(*c.cvs[me.cv], lk, c.ss.get_token(), me);
        me.stop_seen = c.ss.stop_requested();
        if (!lk.owns_lock() || r != me.flag) me.owned = false;    // value == pred() under the lock, lock owned
        me.ret.store(r ? 1 : 0, std::memory_order_release);
    }
    poison_stack();
    ++g_heartbeat;
    me.finished = true;
}

static void waiter_entry(std::shared_ptr<Case> c, int i)
{
    Waiter& me = *c->w[i];
    if (me.kind == 'T') waiter_body(*c, me, me.pm);
    else if (me.kind == 'S') waiter_body(*c, me, me.sm);
    else waiter_body(*c, me, me.om);
}

// set the predicate of waiter i under its user lock (the lock is free only while the waiter is inside its wait) and notify
static void set_flag_and_notify(Case& c, int i)
{
    Waiter& x = *c.w[i];
    if (x.kind == 'T') { std::unique_lock<pika::mutex> l(x.pm); x.flag = true; }
    else if (x.kind == 'S') { std::unique_lock<spinlock> l(x.sm); x.flag = true; }
    else { std::unique_lock<std::mutex> l(x.om); x.flag = true; }
    c.cvs[x.cv]->notify_all();
}
// the waiter has released its user lock inside the wait (it took the cv's internal lock first, so it is queued or about to be)
static void wait_released(Case& c, int i)
{
    Waiter& x = *c.w[i];
    if (x.kind == 'T') { std::unique_lock<pika::mutex> l(x.pm); }
    else if (x.kind == 'S') { std::unique_lock<spinlock> l(x.sm); }
    else { std::unique_lock<std::mutex> l(x.om); }
}

struct Plan
{
    int K = 2;
    std::string kinds;            // per waiter T/S/O
    bool same_cv = true;
    bool seq = true;              // controlled registration order
    std::vector<int> leave;       // indices (registration order) of the early leavers, in leaving order
    int late = 0;                 // new waiters that register while the leavers deregister
    std::string late_kinds;
    bool os_requester = false;
    bool handshake_leave = true;  // wait for each leaver before the next one is released
    std::string order;            // signature class
};

static Plan make_plan(Rng& rng)
{
    Plan p;
    p.K = 2 + (int) rng.below(3);
    for (int i = 0; i < p.K; ++i) p.kinds += "TTSO"[rng.below(4)];
    p.same_cv = rng.chance(1, 2);
    p.seq = !rng.chance(1, 6);
    // early leavers: a non-empty proper subset (1 case in 16: nobody leaves, control), in a seeded order
    std::vector<int> idx;
    for (int i = 0; i < p.K; ++i) idx.push_back(i);
    for (int i = p.K - 1; i > 0; --i) std::swap(idx[i], idx[rng.below(i + 1)]);
    int nleave = rng.chance(1, 16) ? 0 : 1 + (int) rng.below(p.K - 1);
    // make the three single-step classes equally likely for the first leaver
    if (nleave > 0 && p.seq)
    {
        unsigned cls = (unsigned) rng.below(3);
        int first = cls == 0 ? 0 : cls == 1 ? p.K - 1 : (p.K >= 3 ? 1 + (int) rng.below(p.K - 2) : (int) rng.below(2) * (p.K - 1));
        for (int i = 0; i < p.K; ++i) if (idx[i] == first) std::swap(idx[0], idx[i]);
    }
    p.leave.assign(idx.begin(), idx.begin() + nleave);
    p.late = nleave > 0 && rng.chance(1, 3) ? 1 + (int) rng.below(2) : 0;
    for (int i = 0; i < p.late; ++i) p.late_kinds += "TTSO"[rng.below(4)];
    p.os_requester = rng.chance(1, 3);
    p.handshake_leave = p.late == 0 && !rng.chance(1, 4);
    if (nleave == 0) p.order = "nobody_left";
    else if (!p.seq || p.late > 0) p.order = "concurrent";
    else if (p.leave[0] == 0) p.order = "earliest_first";
    else if (p.leave[0] == p.K - 1) p.order = "latest_first";
    else p.order = "middle_first";
    return p;
}

static void run_case(Plan const& p, Rng& rng)
{
    auto c = std::make_shared<Case>();
    int const total = p.K + p.late;
    for (int i = 0; i < total; ++i)
    {
        auto w = std::make_unique<Waiter>();
        w->kind = i < p.K ? p.kinds[i] : p.late_kinds[i - p.K];
        w->cv = p.same_cv ? 0 : i;
        c->w.push_back(std::move(w));
    }
    for (int i = 0; i < (p.same_cv ? 1 : total); ++i) c->cvs.push_back(std::make_unique<pika::condition_variable_any>());

    std::vector<pika::thread> tasks;
    std::vector<std::thread> oss;
    auto start = [&](int i) {
        if (c->w[i]->kind == 'O') oss.emplace_back(waiter_entry, c, i);
        else tasks.emplace_back(waiter_entry, c, i);
    };
    auto registered = [&](int i) { return c->w[i]->preds.load(std::memory_order_acquire) >= 1; };

    // ---- registration, in index order (or all at once)
    for (int i = 0; i < p.K; ++i)
    {
        start(i);
        if (p.seq && !wait_until_true([&] { return registered(i); }, WATCHDOG_MS))
            fail_exit("stalled", "waiter " + std::to_string(i) + " never evaluated its predicate");
    }
    for (int i = 0; i < p.K; ++i)
    {
        if (!wait_until_true([&] { return registered(i); }, WATCHDOG_MS))
            fail_exit("stalled", "waiter " + std::to_string(i) + " never evaluated its predicate");
        wait_released(*c, i);
    }

    // ---- some leave early; optionally new ones register meanwhile
    std::vector<bool> leaver(total, false);
    int started_late = 0;
    for (std::size_t k = 0; k < p.leave.size(); ++k)
    {
        int i = p.leave[k];
        leaver[i] = true;
        set_flag_and_notify(*c, i);
        if (started_late < p.late) { start(p.K + started_late); ++started_late; }
        if (p.handshake_leave && !wait_until_true([&] { return c->w[i]->ret.load() != -1; }, WATCHDOG_MS))
            fail_exit("leaver_no_return", "waiter " + std::to_string(i) + " (" + std::string(1, c->w[i]->kind) +
                ") did not return from wait(lock, stop_token, pred) within 10 s after its predicate was set and its cv notified");
        if (rng.chance(1, 2)) spin_for_ns(rng.below(40) * 1000);
    }
    while (started_late < p.late) { start(p.K + started_late); ++started_late; }
    for (int i : p.leave)
    {
        if (!wait_until_true([&] { return c->w[i]->finished.load(); }, WATCHDOG_MS))
            fail_exit("leaver_no_return", "waiter " + std::to_string(i) + " (" + std::string(1, c->w[i]->kind) +
                ") did not return from wait(lock, stop_token, pred) within 10 s after its predicate was set and its cv notified");
        if (c->w[i]->ret.load() != 1 || !c->w[i]->owned.load())
            fail_exit("value", "waiter " + std::to_string(i) + " left with its predicate true but wait returned false / without the lock");
    }
    for (int i = p.K; i < total; ++i)
    {
        if (!wait_until_true([&] { return registered(i); }, WATCHDOG_MS))
            fail_exit("stalled", "late waiter " + std::to_string(i) + " never evaluated its predicate");
        wait_released(*c, i);
    }
    // ---- the others are still waiting
    for (int i = 0; i < total; ++i)
        if (!leaver[i] && c->w[i]->ret.load() != -1)
            fail_exit("returned_without_stop", "waiter " + std::to_string(i) + " returned although neither its predicate was set nor stop requested");

    // ---- request_stop: every remaining waiter returns false
    std::atomic<int> req{-1};
    auto t_req = clk::now();
    auto do_req = [&] { req.store(c->ss.request_stop() ? 1 : 0); };
    std::thread os_req;
    pika::thread task_req;
    if (p.os_requester) os_req = std::thread(do_req); else task_req = pika::thread(do_req);
    int remaining = 0;
    for (int i = 0; i < total; ++i) if (!leaver[i]) ++remaining;
    auto left_ms = [&] {
        auto el = (int) std::chrono::duration_cast<std::chrono::milliseconds>(clk::now() - t_req).count();
        return el >= WATCHDOG_MS ? 1 : WATCHDOG_MS - el;
    };
    for (int i = 0; i < total; ++i)
    {
        if (leaver[i]) continue;
        if (!wait_until_true([&] { return c->w[i]->ret.load() != -1; }, left_ms()))
        {
            int back = 0;
            for (int j = 0; j < total; ++j) if (!leaver[j] && c->w[j]->ret.load() != -1) ++back;
            std::ostringstream d;
            d << "waiter " << i << " (" << c->w[i]->kind << ") still inside wait(lock, stop_token, pred) 10 s after request_stop() was called (request_stop "
              << (req.load() == -1 ? "has not returned" : "returned") << "; " << back << " of " << remaining
              << " remaining waiters returned; " << p.leave.size() << " others had left before)";
            fail_exit("not_woken_after_other_left", d.str());
        }
    }
    if (!wait_until_true([&] { return req.load() != -1; }, left_ms()))
        fail_exit("request_stop", "request_stop() did not return within 10 s");
    if (p.os_requester) os_req.join(); else task_req.join();
    if (req.load() != 1) fail_exit("request_stop", "the first request_stop() on the source returned false");
    for (int i = 0; i < total; ++i)
    {
        if (leaver[i]) continue;
        if (!wait_until_true([&] { return c->w[i]->finished.load(); }, WATCHDOG_MS))
            fail_exit("not_woken_after_other_left", "waiter " + std::to_string(i) + " did not finish");
        if (c->w[i]->ret.load() != 0 || !c->w[i]->owned.load() || !c->w[i]->stop_seen.load())
            fail_exit("value", "remaining waiter " + std::to_string(i) + " returned true / without its lock / without seeing stop_requested() after request_stop");
    }
    for (auto& t : tasks) t.join();
    for (auto& t : oss) t.join();
}

static std::uint64_t g_seed = 1;
static int g_ncases = 100;
static int g_only = -1;

int pika_main()
{
    for (int s : {SIGSEGV, SIGBUS, SIGILL, SIGABRT, SIGFPE}) std::signal(s, crash_handler);
    Rng rng(g_seed ^ 0x4d554c5449ull);
    for (int cs = 0; cs < g_ncases; ++cs)
    {
        // every case has its own generator so that one case can be replayed alone
        Rng crng(mix_seed(g_seed + 0x1000003ull * (std::uint64_t) cs));
        Plan p = make_plan(crng);
        if (g_only >= 0 && cs != g_only) continue;
        g_case = cs;
        std::snprintf(g_order, sizeof g_order, "%s", p.order.c_str());
        std::ostringstream lv;
        for (std::size_t k = 0; k < p.leave.size(); ++k) lv << (k ? "," : "") << p.leave[k];
        std::printf("IN MW %d kind=stop_multi K=%d waiters=%s cv=%s reg=%s leave=%s late=%s requester=%s handshake=%d order=%s\n", cs, p.K,
            p.kinds.c_str(), p.same_cv ? "same" : "own", p.seq ? "seq" : "atonce", p.leave.empty() ? "-" : lv.str().c_str(),
            p.late ? p.late_kinds.c_str() : "-", p.os_requester ? "os" : "task", (int) p.handshake_leave, p.order.c_str());
        std::fflush(stdout);
        run_case(p, crng);
        std::printf("OUT MW %d ok=1 order=%s\n", cs, p.order.c_str());
        std::fflush(stdout);
    }
    (void) rng;
    pika::finalize();
    return 0;
}

int main(int argc, char** argv)
{
    if (argc > 1 && std::string(argv[1]) == "one")
    {
        g_seed = mix_seed(argc > 2 ? std::strtoull(argv[2], nullptr, 10) : 1);
        g_only = argc > 3 ? std::atoi(argv[3]) : 0;
        g_ncases = g_only + 1;
    }
    else
    {
        g_seed = mix_seed(argc > 1 ? std::strtoull(argv[1], nullptr, 10) : 1);
        g_ncases = argc > 2 ? std::atoi(argv[2]) : 100;
    }
    std::thread([] {
        long last = -1;
        int idle = 0;
        for (;;)
        {
            std::this_thread::sleep_for(std::chrono::seconds(1));
            long h = g_heartbeat.load() + 1000000L * g_case.load();
            if (h == last) ++idle; else idle = 0;
            last = h;
            if (idle >= 30)
            {
                std::printf("OUT MW %d ok=0 what=hang order=%s detail=no progress for 30 s\n", g_case.load(), g_order);
                std::fflush(stdout);
                _exit(0);
            }
        }
    }).detach();
    char a0[] = "c07_multi";
    char a1[] = "--pika:threads=4";
    char* av[] = {a0, a1, nullptr};
    int ac = 2;
    pika::init_params ip;
    return pika::init(pika_main, ac, av, ip);
}
