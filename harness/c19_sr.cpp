// harness/c19_sr.cpp — C19: suspend/resume of pools and processing units on the REAL runtime.
// usage: c19_sr <casefile> <nw> <elastic 0|1> <stealing 0|1> <policy> <seed>
// Two pools are created through the resource partitioner: "default" (2 workers) and "w" (<nw> workers,
// scheduling policy <policy>, scheduler mode with/without enable_elasticity / enable_stealing).
// Case kinds (one per line of <casefile>):
//   SEQ <id> <ops> <exp>     sequential history: every call returns before the next is issued; after each op the
//                            error code, the runtime_state of every worker of "w" and the number of completed
//                            tasks are printed (compared with the extracted model by tools/props/c19.py).
//                            <exp> = number of completed tasks the model predicts after each op (the harness
//                            waits for it, bounded, before it samples).
//   CONC <id> <seed> <nact> <nops> <poolops>   concurrent history generated from <seed>: actors (OS threads and tasks of
//                            the default pool) suspend/resume processing units they own, submit tasks with and
//                            without hints, optionally suspend/resume the whole pool; monitors only.
//   GATE <id> <k>            deterministic hand-shake scenarios using hook 1907/1902 as a gate.
//   LOWP <id>                low-priority tasks staged, then the last processing unit is suspended (known finding).
//   BLK <id> <seed>          tasks hinted to worker w are BLOCKED (latch / condition variable / sync_wait) when
//                            suspend_processing_unit_direct(w) is issued; they are released only after the call returned.
//   YLD <id> <seed>          every other worker is occupied by a non-yielding busy task; tasks on worker w loop on yield() polling a
//                            flag (or are woken with last worker w after w entered pre_sleep); suspend_processing_unit_direct(w) must return.
// Monitors (evaluated here, independent of the model): completion ledger (every task exactly once), no task
// body on a processing unit whose suspend call has returned, calls return (watchdog), tasks complete on the
// remaining workers without any resume, enqueue happens under the PU lock, hand-shake state sequence.
#include <pika/execution.hpp>
#include <pika/init.hpp>
#include <pika/runtime.hpp>
#include <pika/modules/resource_partitioner.hpp>
#include <pika/modules/schedulers.hpp>
#include <pika/threading_base/scheduler_base.hpp>
#include <pika/threading_base/thread_pool_base.hpp>
#include <pika/threading_base/thread_num_tss.hpp>
#include <pika/threading_base/thread_helpers.hpp>

#include <atomic>
#include <chrono>
#include <cstdio>
#include <cstdlib>
#include <fstream>
#include <memory>
#include <mutex>
#include <sstream>
#include <string>
#include <thread>
#include <unistd.h>
#include <vector>

namespace ex = pika::execution::experimental;
namespace tt = pika::this_thread::experimental;
using namespace std::chrono_literals;
using pika::threads::detail::thread_pool_base;

static int NW = 3;
static bool EL = true, ST = true;
static thread_pool_base* TP = nullptr;
static thread_pool_base* DP = nullptr;
static void const* SCHED = nullptr;

// ---------------------------------------------------------------- ledger
static constexpr int MAXT = 1 << 14;
static std::atomic<int> ran[MAXT];
static std::atomic<int> ndone{0};
static std::atomic<int> nsub{0};
static std::atomic<bool> asleep[64];              // suspend_processing_unit returned, resume not yet issued
static std::atomic<int> viol_body_on_suspended{0};
static std::atomic<int> viol_detail_w{-1};

// ---------------------------------------------------------------- hooks
static std::atomic<std::uint64_t> perturb_seed{0};    // 0 = off
static std::atomic<std::uint64_t> hook_ctr{0};
static std::atomic<int> ev1906{0}, ev1906_unlocked{0}, ev1901{0}, ev1901_bad{0}, ev1903{0}, ev1903_bad{0}, ev1907{0};
static std::atomic<int> gate_site{0};                 // 1907 or 1902: block worker gate_worker there while armed
static std::atomic<int> gate_worker{-1};
static std::atomic<bool> gate_armed{false}, gate_reached{false};
static std::atomic<bool> gate_any_running{false};     // gate at 1907 also when the worker computed running = true (LOWP)

static inline std::uint64_t mix(std::uint64_t x)
{
    x ^= x >> 33; x *= 0xff51afd7ed558ccdULL; x ^= x >> 33; x *= 0xc4ceb9fe1a85ec53ULL; x ^= x >> 33;
    return x;
}

static thread_local bool tl_in_submit = false;    // the calling thread is inside submit() of this harness
static void perturb(int site)
{
    std::uint64_t s = perturb_seed.load(std::memory_order_relaxed);
    if (s == 0) return;
    std::uint64_t r = mix(s + 0x9e3779b97f4a7c15ULL * hook_ctr.fetch_add(1, std::memory_order_relaxed) + site);
    if ((r & 3) == 0)
    {
        auto d = std::chrono::microseconds((r >> 8) % (site == 1909 && (r & 48) == 0 ? 2000 : 300));
        auto t0 = std::chrono::steady_clock::now();
        if ((r & 4) != 0) std::this_thread::sleep_for(d);
        else
            while (std::chrono::steady_clock::now() - t0 < d) std::this_thread::yield();
    }
}

static void hook(int site, void const* obj, std::uint64_t a, std::uint64_t b)
{
    if (site < 1901 || site > 1909) return;
    if (site == 1909)
    {
        // thread_queue::create_thread entry (the enqueue itself): only for submissions made by this harness
        if (!tl_in_submit) return;
        if (gate_armed.load() && gate_site.load() == 1909)
        {
            gate_reached.store(true);
            auto t0 = std::chrono::steady_clock::now();
            while (gate_armed.load() && std::chrono::steady_clock::now() - t0 < 20s) std::this_thread::sleep_for(50us);
            return;
        }
        perturb(site);
        return;
    }
    if (obj != SCHED) return;    // only the pool under test
    auto* sb = static_cast<pika::threads::detail::scheduler_base const*>(obj);
    switch (site)
    {
    case 1901:
        ++ev1901;
        if (sb->get_state(a).load() != pika::runtime_state::pre_sleep) ++ev1901_bad;
        break;
    case 1903:
        ++ev1903;
        if (b != std::uint64_t(pika::runtime_state::sleeping) && b != std::uint64_t(pika::runtime_state::stopping) &&
            b != std::uint64_t(pika::runtime_state::terminating))
            ++ev1903_bad;
        break;
    case 1906:
        ++ev1906;
        if (EL && b == 0) ++ev1906_unlocked;
        break;
    case 1907: ++ev1907; break;
    default: break;
    }
    if (gate_armed.load() && site == gate_site.load() && int(a) == gate_worker.load() &&
        (site != 1907 || b == 0 || gate_any_running.load()))
    {
        gate_reached.store(true);
        auto t0 = std::chrono::steady_clock::now();
        while (gate_armed.load() && std::chrono::steady_clock::now() - t0 < 20s) std::this_thread::sleep_for(50us);
        return;
    }
    perturb(site);
}

// ---------------------------------------------------------------- watchdog
static std::atomic<std::int64_t> case_deadline_ms{0};    // 0 = no case running
static std::string cur_kind, cur_id;
static std::atomic<int> inflight_op{-1};
static std::int64_t now_ms()
{
    return std::chrono::duration_cast<std::chrono::milliseconds>(std::chrono::steady_clock::now().time_since_epoch()).count();
}
static std::string states_str()
{
    std::string s;
    for (int i = 0; i < NW; ++i)
    {
        if (i) s += ",";
        s += std::to_string(int(TP->get_scheduler()->get_state(i).load()));
    }
    return s;
}
static void watchdog()
{
    for (;;)
    {
        std::this_thread::sleep_for(100ms);
        std::int64_t d = case_deadline_ms.load();
        if (d != 0 && now_ms() > d)
        {
            std::printf("OUT %s %s HANG inflight=%d states=%s done=%d sub=%d\n", cur_kind.c_str(), cur_id.c_str(),
                inflight_op.load(), states_str().c_str(), ndone.load(), nsub.load());
            std::fflush(stdout);
            _exit(3);
        }
    }
}
static void begin_case(std::string const& kind, std::string const& id, int limit_s)
{
    cur_kind = kind; cur_id = id;
    for (int i = 0; i < MAXT; ++i) ran[i].store(0, std::memory_order_relaxed);
    ndone = 0; nsub = 0;
    for (auto& x : asleep) x = false;
    viol_body_on_suspended = 0; viol_detail_w = -1;
    ev1906 = 0; ev1906_unlocked = 0; ev1901 = 0; ev1901_bad = 0; ev1903 = 0; ev1903_bad = 0; ev1907 = 0;
    case_deadline_ms = now_ms() + 1000 * limit_s;
}
static void end_case() { case_deadline_ms = 0; }

// ---------------------------------------------------------------- operations
static void submit(int hint)    // hint < 0: none
{
    int id = nsub.fetch_add(1);
    if (id >= MAXT) return;
    auto body = [id] {
        if (pika::this_thread::get_pool() == TP)
        {
            std::size_t wn = pika::get_local_worker_thread_num();
            if (wn < 64 && asleep[wn].load())
            {
                ++viol_body_on_suspended;
                viol_detail_w = int(wn);
            }
        }
        ran[id].fetch_add(1);
        ndone.fetch_add(1);
    };
    ex::thread_pool_scheduler sched{TP};
    tl_in_submit = true;
    if (hint >= 0)
        ex::execute(ex::with_hint(sched, pika::execution::thread_schedule_hint(std::int16_t(hint))), body);
    else
        ex::execute(sched, body);
    tl_in_submit = false;
}
static bool suspend_pu(int w) { pika::error_code ec(pika::throwmode::lightweight); TP->suspend_processing_unit_direct(w, ec); return bool(ec); }
static bool resume_pu(int w) { pika::error_code ec(pika::throwmode::lightweight); TP->resume_processing_unit_direct(w, ec); return bool(ec); }
static bool suspend_pool() { pika::error_code ec(pika::throwmode::lightweight); TP->suspend_direct(ec); return bool(ec); }
static bool resume_pool() { pika::error_code ec(pika::throwmode::lightweight); TP->resume_direct(ec); return bool(ec); }

// op token: [o|d|s] + (SP<w> | RP<w> | SA | RA | T<w> | TN);  o = OS thread, d = task of the default pool,
// s = task of the pool itself ("self")
static bool do_op_here(std::string const& op)
{
    std::string k = op.substr(0, 2);
    if (k == "SP") return suspend_pu(std::atoi(op.c_str() + 2));
    if (k == "RP") return resume_pu(std::atoi(op.c_str() + 2));
    if (k == "SA") return suspend_pool();
    if (k == "RA") return resume_pool();
    if (k == "TN") { submit(-1); return false; }
    if (op[0] == 'T') { submit(std::atoi(op.c_str() + 1)); return false; }
    return false;
}
static bool do_op(std::string const& tok)
{
    char who = tok[0];
    std::string op = tok.substr(1);
    if (who == 'o') return do_op_here(op);
    bool r = false;
    thread_pool_base* p = (who == 's') ? TP : DP;
    tt::sync_wait(ex::schedule(ex::thread_pool_scheduler{p}) | ex::then([&] { r = do_op_here(op); }));
    return r;
}

static std::vector<std::string> split(std::string const& s, char c)
{
    std::vector<std::string> v; std::string cur; std::istringstream is(s);
    while (std::getline(is, cur, c)) v.push_back(cur);
    return v;
}
static bool wait_done(int n, int ms)
{
    auto t0 = std::chrono::steady_clock::now();
    while (ndone.load() < n)
    {
        if (std::chrono::steady_clock::now() - t0 > std::chrono::milliseconds(ms)) return false;
        std::this_thread::sleep_for(100us);
    }
    return true;
}
static void resume_all_quiet()
{
    pika::error_code ec(pika::throwmode::lightweight);
    TP->resume_direct(ec);
}
static std::string ledger_check()
{
    int n = nsub.load();
    int lost = 0, dup = 0, first = -1;
    for (int i = 0; i < n && i < MAXT; ++i)
    {
        int r = ran[i].load();
        if (r == 0) { ++lost; if (first < 0) first = i; }
        if (r > 1) { ++dup; if (first < 0) first = i; }
    }
    char buf[128];
    std::snprintf(buf, sizeof buf, "tasks=%d lost=%d dup=%d first=%d", n, lost, dup, first);
    return buf;
}
static std::string hook_report()
{
    char buf[200];
    std::snprintf(buf, sizeof buf, "enq=%d enq_unlocked=%d sleep=%d sleep_bad=%d wake=%d wake_bad=%d", ev1906.load(),
        ev1906_unlocked.load(), ev1901.load(), ev1901_bad.load(), ev1903.load(), ev1903_bad.load());
    return buf;
}

// ---------------------------------------------------------------- SEQ
static void run_seq(std::string const& id, std::string const& opss, std::string const& exps)
{
    auto ops = split(opss, ',');
    auto exp = split(exps, ',');
    std::printf("IN SEQ %s nw=%d el=%d st=%d ops=%s\n", id.c_str(), NW, int(EL), int(ST), opss.c_str());
    std::fflush(stdout);
    begin_case("SEQ", id, 45);
    std::string out;
    for (std::size_t i = 0; i < ops.size(); ++i)
    {
        inflight_op = int(i);
        bool e = do_op(ops[i]);
        int want = i < exp.size() ? std::atoi(exp[i].c_str()) : 0;
        wait_done(want, 3000);
        std::this_thread::sleep_for(1ms);
        if (i) out += "|";
        out += std::string(e ? "e1:" : "e0:") + states_str() + ":" + std::to_string(ndone.load());
    }
    inflight_op = -2;
    resume_all_quiet();
    bool all = wait_done(nsub.load(), 20000);
    std::printf("OUT SEQ %s r=%s final=%d %s\n", id.c_str(), out.c_str(), int(all), ledger_check().c_str());
    std::fflush(stdout);
    end_case();
}

// ---------------------------------------------------------------- CONC
struct Rng
{
    std::uint64_t s;
    std::uint64_t next() { s += 0x9e3779b97f4a7c15ULL; return mix(s); }
    int below(int n) { return int(next() % std::uint64_t(n)); }
};

static void run_conc(std::string const& id, std::uint64_t seed, int nact, int nops, int poolops)
{
    std::printf("IN CONC %s nw=%d el=%d st=%d seed=%llu nact=%d nops=%d poolops=%d\n", id.c_str(), NW, int(EL), int(ST),
        (unsigned long long) seed, nact, nops, poolops);
    std::fflush(stdout);
    begin_case("CONC", id, 40);
    perturb_seed = seed * 2 + 1;
    std::vector<std::thread> th;
    std::atomic<int> errs{0};
    for (int a = 0; a < nact; ++a)
    {
        th.emplace_back([&, a] {
            Rng r{seed * 1000003ULL + std::uint64_t(a) * 7919ULL};
            char who = (a % 2 == 0) ? 'o' : 'd';
            std::vector<int> owned;
            for (int w = 1; w < NW; ++w)
                if (w % nact == a) owned.push_back(w);
            for (int k = 0; k < nops; ++k)
            {
                int c = r.below(100);
                if (poolops && a == 0 && c < 6)
                {
                    if (do_op(std::string(1, who) + "SA")) ++errs;
                    if (r.below(2)) submit(r.below(NW));    // lands on a sleeping pool: must run after the resume
                    if (do_op(std::string(1, who) + "RA")) ++errs;
                }
                else if (EL && !owned.empty() && c < 30)
                {
                    int w = owned[r.below(int(owned.size()))];
                    bool e = do_op(std::string(1, who) + "SP" + std::to_string(w));
                    if (e) ++errs;
                    else if (!poolops) asleep[w] = true;
                }
                else if (EL && !owned.empty() && c < 55)
                {
                    int w = owned[r.below(int(owned.size()))];
                    asleep[w] = false;
                    if (do_op(std::string(1, who) + "RP" + std::to_string(w))) ++errs;
                }
                else
                {
                    int burst = 1 + r.below(6);
                    for (int j = 0; j < burst; ++j)
                    {
                        int h = r.below(NW + 1);
                        do_op(std::string(1, who) + (h == NW ? std::string("TN") : "T" + std::to_string(h)));
                    }
                }
            }
            if (poolops)
                for (int w : owned) { asleep[w] = false; resume_pu(w); }
        });
    }
    for (auto& t : th) t.join();
    perturb_seed = 0;
    // tasks complete on the remaining workers: worker 0 was never suspended by a processing-unit call, and with
    // processing-unit calls only no resume is needed for any submitted task to run
    bool before_resume = true;
    if (!poolops) before_resume = wait_done(nsub.load(), 8000);
    int done_before = ndone.load();
    std::string st_before = states_str();
    for (auto& x : asleep) x = false;
    resume_all_quiet();
    bool all = wait_done(nsub.load(), 20000);
    std::printf("OUT CONC %s before_resume=%d done_before=%d states_before=%s all=%d %s body_on_suspended=%d w=%d errs=%d %s\n",
        id.c_str(), int(before_resume), done_before, st_before.c_str(), int(all), ledger_check().c_str(),
        viol_body_on_suspended.load(), viol_detail_w.load(), errs.load(), hook_report().c_str());
    std::fflush(stdout);
    end_case();
}

// ---------------------------------------------------------------- GATE
static bool wait_flag(std::atomic<bool>& f, int ms)
{
    auto t0 = std::chrono::steady_clock::now();
    while (!f.load())
    {
        if (std::chrono::steady_clock::now() - t0 > std::chrono::milliseconds(ms)) return false;
        std::this_thread::sleep_for(50us);
    }
    return true;
}
static void run_gate(std::string const& id, int kind)
{
    std::printf("IN GATE %s nw=%d el=%d st=%d kind=%d\n", id.c_str(), NW, int(EL), int(ST), kind);
    std::fflush(stdout);
    begin_case("GATE", id, 40);
    int const last = NW - 1;
    bool e = false;
    if (kind == 3)
    {
        // a submitter that has selected the (running) last worker under its PU lock is stopped at the enqueue itself; a
        // suspend of that worker issued meanwhile must wait for the lock: it may not complete while the submitter is parked,
        // and the task, enqueued before the CAS, must be run by the worker before it sleeps
        gate_site = 1909; gate_reached = false; gate_armed = true;
        std::thread t([&] { submit(last); });
        bool reached = wait_flag(gate_reached, 10000);
        std::atomic<bool> returned{false};
        std::atomic<int> done_at_return{-1};
        std::thread s([&] { e = suspend_pu(last) || e; done_at_return = ndone.load(); returned = true; });
        std::this_thread::sleep_for(100ms);
        bool early = returned.load();
        std::string st_parked = states_str();
        gate_armed = false;
        t.join();
        wait_flag(returned, 20000);
        s.join();
        std::string st_ret = states_str();
        // the task was enqueued before the suspend took effect: it runs on this worker before it sleeps, or (stealing) on
        // another one; in any case without a resume
        bool done_wo_resume = wait_done(1, 8000);
        resume_all_quiet();
        bool all = wait_done(nsub.load(), 20000);
        std::printf("OUT GATE %s reached=%d returned_while_parked=%d states_while_parked=%s done_without_resume=%d states_at_return=%s err=%d all=%d done_at_return=%d %s\n",
            id.c_str(), int(reached), int(early), st_parked.c_str(), int(done_wo_resume), st_ret.c_str(), int(e), int(all), done_at_return.load(), ledger_check().c_str());
        std::fflush(stdout);
        end_case();
        return;
    }
    for (int w = 0; w < last; ++w) e = suspend_pu(w) || e;    // everyone but the last worker sleeps
    if (kind == 1)
    {
        // the last worker is stopped in the idle branch just before it computes can_exit; a task is enqueued on its
        // queue meanwhile (all other workers sleep, so select_active_pu escalates and accepts the pre_sleep worker);
        // the worker must see the task when it re-checks its queue length and run it BEFORE it sleeps
        gate_site = 1907; gate_worker = last; gate_reached = false; gate_armed = true;
        std::atomic<bool> returned{false};
        std::atomic<int> done_at_return{-1};
        std::thread s([&] { e = suspend_pu(last) || e; done_at_return = ndone.load(); returned = true; });
        bool reached = wait_flag(gate_reached, 10000);
        std::string st_gate = states_str();
        submit(last);
        gate_armed = false;
        wait_flag(returned, 20000);
        s.join();
        std::string st_ret = states_str();
        resume_all_quiet();
        bool all = wait_done(nsub.load(), 20000);
        std::printf("OUT GATE %s reached=%d states_at_gate=%s done_at_return=%d states_at_return=%s err=%d all=%d %s\n", id.c_str(),
            int(reached), st_gate.c_str(), done_at_return.load(), st_ret.c_str(), int(e), int(all), ledger_check().c_str());
    }
    else
    {
        // the last worker is stopped after it stored `sleeping` and before it waits on the condition variable: the
        // resumer's first notifications are lost; resume_processing_unit_direct must keep notifying until the
        // worker has left `sleeping`
        gate_site = 1902; gate_worker = last; gate_reached = false; gate_armed = true;
        e = suspend_pu(last) || e;    // returns as soon as the state is `sleeping`
        bool reached = wait_flag(gate_reached, 10000);
        std::atomic<bool> returned{false};
        std::thread s([&] { e = resume_pu(last) || e; returned = true; });
        std::this_thread::sleep_for(3ms);    // let the resumer notify into the void
        bool early = returned.load();
        gate_armed = false;
        wait_flag(returned, 20000);
        s.join();
        std::string st_ret = states_str();
        submit(last);
        bool ranit = wait_done(1, 10000);
        resume_all_quiet();
        bool all = wait_done(nsub.load(), 20000);
        std::printf("OUT GATE %s reached=%d early_return=%d states_at_return=%s ran_after_resume=%d err=%d all=%d %s\n", id.c_str(),
            int(reached), int(early), st_ret.c_str(), int(ranit), int(e), int(all), ledger_check().c_str());
    }
    std::fflush(stdout);
    end_case();
}

// ---------------------------------------------------------------- LOWP
// low-priority tasks are staged in the pool-wide low-priority queue, which only the LAST worker converts (and only
// while `running`), but whose length counts into the last worker's get_queue_length: told to sleep, the last worker
// can neither run them nor sleep.  The scenario: stage low-priority tasks, suspend the last processing unit.
static void run_lowp(std::string const& id)
{
    std::printf("IN LOWP %s nw=%d el=%d st=%d\n", id.c_str(), NW, int(EL), int(ST));
    std::fflush(stdout);
    begin_case("LOWP", id, 80);
    int const last = NW - 1;
    int const n = 30;
    // the schedule of the model witness (Proofs: lp_sched / driver case LOWP): the last worker is parked in its idle branch
    // (running = true, hook 1907) while the tasks are staged and until the suspender's CAS running -> pre_sleep has happened;
    // released, it finds running = false in its next iteration
    gate_site = 1907; gate_worker = last; gate_reached = false; gate_any_running = true; gate_armed = true;
    bool reached = wait_flag(gate_reached, 10000);
    for (int i = 0; i < n; ++i)
    {
        int tid = nsub.fetch_add(1);
        ex::execute(ex::with_priority(ex::thread_pool_scheduler{TP}, pika::execution::thread_priority::low), [tid] {
            std::this_thread::sleep_for(20us);
            ran[tid].fetch_add(1);
            ndone.fetch_add(1);
        });
    }
    std::atomic<bool> returned{false};
    std::thread s([&] { suspend_pu(last); returned = true; });
    {
        auto t0 = std::chrono::steady_clock::now();
        while (TP->get_scheduler()->get_state(last).load() != pika::runtime_state::pre_sleep &&
            std::chrono::steady_clock::now() - t0 < 5s)
            std::this_thread::sleep_for(50us);
    }
    gate_armed = false; gate_any_running = false;
    bool ret = wait_flag(returned, 3000);
    int done_then = ndone.load();
    std::string st_then = states_str();
    bool stuck_more = false;
    if (!ret)
    {
        std::this_thread::sleep_for(500ms);
        stuck_more = !returned.load() && ndone.load() == done_then;
        // no API call gets the worker out of pre_sleep: put it back to running by hand so that the harness can go on
        pika::runtime_state exp = pika::runtime_state::pre_sleep;
        TP->get_scheduler()->get_state(last).compare_exchange_strong(exp, pika::runtime_state::running);
        wait_flag(returned, 20000);
    }
    s.join();
    resume_all_quiet();
    bool all = wait_done(nsub.load(), 20000);
    std::printf("OUT LOWP %s reached=%d returned=%d done_then=%d of=%d states_then=%s no_progress=%d all=%d %s\n", id.c_str(), int(reached), int(ret),
        done_then, n, st_then.c_str(), int(stuck_more), int(all), ledger_check().c_str());
    std::fflush(stdout);
    end_case();
}

// ---------------------------------------------------------------- BLK
// "the calls themselves return", "tasks continue to complete on the remaining workers" when the processing unit that is
// suspended owns BLOCKED tasks: K tasks hinted to worker w are suspended on a pika::latch / a condition variable / a
// sync_wait of a sender running on the default pool (state `suspended`, no longer in any queue, but still owned by the
// queue that created them) when suspend_processing_unit_direct(w) is issued from an OS thread or from a task of the
// default pool.  Nobody releases them before the suspend call has returned, so the call must not wait for them.
// Then ordinary tasks are submitted to the remaining workers (they must run without any resume), the blocked tasks are
// released (they finish on the remaining workers, or on w after the resume) and w is resumed.
#include <pika/condition_variable.hpp>
#include <pika/latch.hpp>
#include <pika/mutex.hpp>
#include <pika/thread.hpp>
struct BlkShared
{
    pika::latch latch{1};
    pika::mutex m;
    pika::condition_variable cv;
    bool go = false;
    std::atomic<bool> release{false};
    std::atomic<int> started{0}, finished{0}, on_w{0};
};
static std::int64_t susp_count(int w)
{
    return TP->get_scheduler()->get_thread_count(pika::threads::detail::thread_schedule_state::suspended,
        pika::execution::thread_priority::default_, w < 0 ? std::size_t(-1) : std::size_t(w), false);
}
template <typename F>
static bool wait_cond(F f, int ms)
{
    auto t0 = std::chrono::steady_clock::now();
    while (!f())
    {
        if (std::chrono::steady_clock::now() - t0 > std::chrono::milliseconds(ms)) return false;
        std::this_thread::sleep_for(100us);
    }
    return true;
}
static void run_blk(std::string const& id, std::uint64_t seed)
{
    Rng r{seed * 0x9e3779b97f4a7c15ULL + 77};
    int const w = r.below(NW);
    int const K = 1 + r.below(4);
    char const caller = r.below(2) ? 'o' : 'd';
    std::string kinds;
    bool have_s = false;
    for (int i = 0; i < K; ++i)
    {
        char k = "llccs"[r.below(5)];
        if (k == 's' && have_s) k = 'l';
        have_s = have_s || k == 's';
        kinds += k;
    }
    std::printf("IN BLK %s nw=%d el=%d st=%d seed=%llu w=%d K=%d kinds=%s caller=%c\n", id.c_str(), NW, int(EL), int(ST),
        (unsigned long long) seed, w, K, kinds.c_str(), caller);
    std::fflush(stdout);
    // every call that does not return costs the 10 s bound: two such cases per run are evidence enough
    static int blk_not_returned = 0;
    if (blk_not_returned >= 2)
    {
        std::printf("OUT BLK %s setup=0 skipped=1\n", id.c_str());
        std::fflush(stdout);
        return;
    }
    begin_case("BLK", id, 90);
    auto sh = std::make_shared<BlkShared>();
    std::int64_t const base_all = susp_count(-1), base_w = susp_count(w);
    for (int i = 0; i < K; ++i)
    {
        int tid = nsub.fetch_add(1);
        char kind = kinds[i];
        ex::execute(ex::with_hint(ex::thread_pool_scheduler{TP}, pika::execution::thread_schedule_hint(std::int16_t(w))), [sh, tid, kind, w] {
            if (int(pika::get_local_worker_thread_num()) == w) ++sh->on_w;
            ++sh->started;
            if (kind == 'l') sh->latch.wait();
            else if (kind == 'c')
            {
                std::unique_lock<pika::mutex> lk(sh->m);
                sh->cv.wait(lk, [&] { return sh->go; });
            }
            else
                tt::sync_wait(ex::schedule(ex::thread_pool_scheduler{DP}) | ex::then([sh] { while (!sh->release.load()) pika::this_thread::yield(); }));
            if (pika::this_thread::get_pool() == TP)
            {
                std::size_t wn = pika::get_local_worker_thread_num();
                if (wn < 64 && asleep[wn].load()) { ++viol_body_on_suspended; viol_detail_w = int(wn); }
            }
            ++sh->finished;
            ran[tid].fetch_add(1);
            ndone.fetch_add(1);
        });
    }
    // all K tasks have started and are suspended (blocked), none can finish before the release below
    bool setup = wait_cond([&] { return sh->started.load() == K; }, 8000) &&
        wait_cond([&] { return susp_count(-1) >= base_all + K; }, 8000);
    std::int64_t const susp_w = susp_count(w) - base_w;
    int const on_w = sh->on_w.load();
    // ---- the suspend call, issued while the tasks are blocked
    std::atomic<bool> returned{false};
    bool e = false;
    auto t0 = std::chrono::steady_clock::now();
    std::atomic<long> ret_us{-1};
    std::thread s([&] {
        e = do_op(std::string(1, caller) + "SP" + std::to_string(w));
        ret_us = long(std::chrono::duration_cast<std::chrono::microseconds>(std::chrono::steady_clock::now() - t0).count());
        returned = true;
    });
    bool const ret = wait_flag(returned, 10000);
    if (!ret) ++blk_not_returned;
    int const finished_at_return = sh->finished.load();
    std::string const st_ret = states_str();
    if (ret && !e) asleep[w] = true;
    // ---- the remaining workers keep working without any resume
    int others = 0;
    int const done0 = ndone.load();
    if (ret && !e)
    {
        for (int v = 0; v < NW; ++v)
            if (v != w) { submit(v); ++others; }
        submit(-1); ++others;
    }
    bool const others_done = wait_done(done0 + others, 10000);
    // ---- release the blocked tasks (from a task of the default pool: every primitive is used from pika tasks only)
    tt::sync_wait(ex::schedule(ex::thread_pool_scheduler{DP}) | ex::then([sh] {
        sh->latch.count_down(1);
        { std::unique_lock<pika::mutex> lk(sh->m); sh->go = true; }
        sh->cv.notify_all();
        sh->release = true;
    }));
    if (!ret) wait_flag(returned, 30000);
    s.join();
    bool const done_before_resume = wait_cond([&] { return sh->finished.load() == K; }, ret ? 1500 : 1);
    int const fin_before_resume = sh->finished.load();
    for (auto& x : asleep) x = false;
    resume_all_quiet();
    bool all = wait_done(nsub.load(), 20000);
    std::printf("OUT BLK %s setup=%d K=%d started_on_w=%d suspended_owned_by_w=%lld returned=%d ret_us=%ld finished_at_return=%d states_at_return=%s err=%d "
                "others=%d others_done=%d done_before_resume=%d fin_before_resume=%d all=%d %s body_on_suspended=%d w=%d\n",
        id.c_str(), int(setup), K, on_w, (long long) susp_w, int(ret), ret_us.load(), finished_at_return, st_ret.c_str(), int(e), others, int(others_done),
        int(done_before_resume), fin_before_resume, int(all), ledger_check().c_str(), viol_body_on_suspended.load(), w);
    std::fflush(stdout);
    end_case();
}

// ---------------------------------------------------------------- YLD
// "the calls themselves return" / "tasks continue on the remaining workers" when the processing unit that is suspended
// runs tasks that keep YIELDING (poll a flag with pika::this_thread::yield()), and no other worker is idle: every other
// worker of the pool is occupied by a NON-yielding busy task (released by a flag), so nobody can steal the re-queued task.
// A yield re-queues the task with its current worker as hint (schedule_thread_last(hint = this worker, allow_fallback));
// select_active_pu must then not pick the unit that is on its way to sleep (state pre_sleep), otherwise the worker never
// finds its queue empty and suspend_processing_unit_direct never returns.
//   variant y: K tasks hinted to worker w loop on yield(); suspend_processing_unit_direct(w) from an OS thread / a task of
//              the default pool must return within YLD_BOUND_MS although the flag is set only afterwards;
//   variant k: K tasks that ran on w are BLOCKED on a latch (last worker = w); a busy task keeps w occupied; the suspend
//              is issued (w enters pre_sleep), THEN the tasks are woken (wake-up with the last worker as hint) and start
//              polling with yield(); the busy task on w is released; the call must return.
// Afterwards: the yielding tasks make progress on the remaining workers once those are released (polls keep rising, never
// on the suspended unit), finish when the flag is set — before any resume — then w is resumed; ledger.
// setup=0 (not judged: INCONCLUSIVE) when the busy tasks / pollers did not even start within 8 s (overloaded machine).
static constexpr int YLD_BOUND_MS = 12000;
struct YldShared
{
    std::atomic<bool> flag{false}, release_all{false}, release_b2{false};
    std::atomic<bool> release_one[64];
    std::atomic<int> bstarted{0}, bdone{0}, where[64];
    std::atomic<int> ystarted{0}, yfinished{0}, yon_target{0}, b2started{0}, b2where{-1};
    std::atomic<long> polls{0}, polls_on_target_after_request{0}, polls_off_target{0};
    std::atomic<bool> requested{false};    // the suspend call has been issued
    pika::latch latch{1};
    YldShared() { for (auto& x : release_one) x = false; for (auto& x : where) x = -1; }
};
static void run_yld(std::string const& id, std::uint64_t seed)
{
    Rng r{seed * 0x9e3779b97f4a7c15ULL + 4242};
    int const w_hint = r.below(NW);
    int const K = 1 + r.below(3);
    char const caller = r.below(2) ? 'o' : 'd';
    char const variant = r.below(3) == 0 ? 'k' : 'y';
    std::printf("IN YLD %s nw=%d el=%d st=%d seed=%llu w_hint=%d K=%d caller=%c variant=%c\n", id.c_str(), NW, int(EL), int(ST),
        (unsigned long long) seed, w_hint, K, caller, variant);
    std::fflush(stdout);
    static int yld_not_returned = 0;
    if (yld_not_returned >= 2 || !EL || NW < 2)
    {
        std::printf("OUT YLD %s setup=0 skipped=1\n", id.c_str());
        std::fflush(stdout);
        return;
    }
    begin_case("YLD", id, 150);
    std::int64_t const T0 = now_ms();
    std::int64_t t_busy = -1, t_poll = -1, t_call = -1, t_fin = -1;
    auto sh = std::make_shared<YldShared>();
    auto sched = ex::thread_pool_scheduler{TP};
    auto hinted = [&](int h) { return ex::with_hint(sched, pika::execution::thread_schedule_hint(std::int16_t(h))); };
    // ---- 1. every worker but one gets a busy task that never yields
    for (int i = 0; i < NW - 1; ++i)
    {
        int tid = nsub.fetch_add(1);
        ex::execute(hinted((w_hint + 1 + i) % NW), [sh, tid, i] {
            sh->where[i] = int(pika::get_local_worker_thread_num());
            ++sh->bstarted;
            while (!sh->release_all.load(std::memory_order_acquire) && !sh->release_one[i].load(std::memory_order_acquire)) { __builtin_ia32_pause(); }
            ++sh->bdone;
            ran[tid].fetch_add(1);
            ndone.fetch_add(1);
        });
    }
    bool setup = wait_cond([&] { return sh->bstarted.load() == NW - 1; }, 8000);
    t_busy = now_ms() - T0;
    int target = -1;
    if (setup)
    {
        for (int v = 0; v < NW; ++v)
        {
            bool used = false;
            for (int i = 0; i < NW - 1; ++i) used = used || sh->where[i].load() == v;
            if (!used) target = v;
        }
        setup = target >= 0;
    }
    auto poll_loop = [sh](int target_) {
        while (!sh->flag.load(std::memory_order_acquire))
        {
            ++sh->polls;
            if (pika::this_thread::get_pool() == TP)
            {
                std::size_t wn = pika::get_local_worker_thread_num();
                if (int(wn) == target_) { if (sh->requested.load()) ++sh->polls_on_target_after_request; }
                else ++sh->polls_off_target;
                if (wn < 64 && asleep[wn].load()) { ++viol_body_on_suspended; viol_detail_w = int(wn); }
            }
            pika::this_thread::yield();
        }
    };
    std::int64_t const base_all = susp_count(-1);
    // ---- 2. the pollers on the free worker
    if (setup)
    {
        for (int k = 0; k < K; ++k)
        {
            int tid = nsub.fetch_add(1);
            ex::execute(hinted(target), [sh, tid, target, variant, poll_loop] {
                if (int(pika::get_local_worker_thread_num()) == target) ++sh->yon_target;
                ++sh->ystarted;
                if (variant == 'k') sh->latch.wait();
                poll_loop(target);
                ++sh->yfinished;
                ran[tid].fetch_add(1);
                ndone.fetch_add(1);
            });
        }
        setup = wait_cond([&] { return sh->ystarted.load() == K; }, 8000);
        if (setup && variant == 'y') setup = wait_cond([&] { return sh->polls.load() > 50L * K; }, 8000);
        if (setup && variant == 'k')
        {
            setup = wait_cond([&] { return susp_count(-1) >= base_all + K; }, 8000);
            if (setup)
            {
                // keep the unit occupied so that it stays in pre_sleep while the blocked tasks are woken
                int tid = nsub.fetch_add(1);
                ex::execute(hinted(target), [sh, tid] {
                    sh->b2where = int(pika::get_local_worker_thread_num());
                    ++sh->b2started;
                    while (!sh->release_b2.load(std::memory_order_acquire) && !sh->release_all.load(std::memory_order_acquire)) { __builtin_ia32_pause(); }
                    ran[tid].fetch_add(1);
                    ndone.fetch_add(1);
                });
                setup = wait_cond([&] { return sh->b2started.load() == 1; }, 8000) && sh->b2where.load() == target;
            }
        }
    }
    int const yon_target = sh->yon_target.load();
    t_poll = now_ms() - T0;
    if (!setup)
    {
        // overloaded machine (or the tasks did not land as intended): not judged
        sh->flag = true; sh->release_all = true; sh->release_b2 = true;
        tt::sync_wait(ex::schedule(ex::thread_pool_scheduler{DP}) | ex::then([sh] { sh->latch.count_down(1); }));
        bool all = wait_done(nsub.load(), 60000);
        std::printf("OUT YLD %s setup=0 skipped=0 bstarted=%d ystarted=%d target=%d all=%d\n", id.c_str(), sh->bstarted.load(), sh->ystarted.load(), target, int(all));
        std::fflush(stdout);
        end_case();
        return;
    }
    // ---- 3. the suspend call
    std::atomic<bool> returned{false};
    bool e = false;
    std::atomic<long> ret_us{-1};
    long const polls_at_request = sh->polls.load();
    sh->requested = true;
    auto t0 = std::chrono::steady_clock::now();
    std::thread s([&] {
        e = do_op(std::string(1, caller) + "SP" + std::to_string(target));
        ret_us = long(std::chrono::duration_cast<std::chrono::microseconds>(std::chrono::steady_clock::now() - t0).count());
        returned = true;
    });
    int woke_in_pre_sleep = -1;
    if (variant == 'k')
    {
        // wake the blocked tasks only after the unit has entered pre_sleep (their last worker is `target`)
        bool pre = wait_cond([&] { return TP->get_scheduler()->get_state(std::size_t(target)).load() == pika::runtime_state::pre_sleep; }, 8000);
        woke_in_pre_sleep = pre ? 1 : 0;
        tt::sync_wait(ex::schedule(ex::thread_pool_scheduler{DP}) | ex::then([sh] { sh->latch.count_down(1); }));
        wait_cond([&] { return susp_count(-1) <= base_all; }, 8000);    // all woken tasks are pending (re-queued) or running
        sh->release_b2 = true;
    }
    bool const ret = wait_flag(returned, YLD_BOUND_MS);
    t_call = now_ms() - T0;
    if (!ret) ++yld_not_returned;
    std::string const st_ret = states_str();
    long const polls_at_return = sh->polls.load();
    long const polls_on_target = sh->polls_on_target_after_request.load();
    if (ret && !e) asleep[target] = true;
    // ---- 4. progress on the remaining workers once they are released (first one, then all)
    int progress_one = 0, progress_all = 0;
    long const off0 = sh->polls_off_target.load();
    if (ret)
    {
        for (int i = 0; i < NW - 1; ++i)
            if (sh->where[i].load() == (target + 1) % NW) sh->release_one[i] = true;
        progress_one = wait_cond([&] { return sh->polls_off_target.load() >= off0 + 20L * K; }, 2000) ? 1 : 0;
    }
    sh->release_all = true;
    sh->release_b2 = true;
    if (ret) progress_all = wait_cond([&] { return sh->polls_off_target.load() >= off0 + 40L * K; }, 10000) ? 1 : 0;
    // ---- 5. let the pollers finish (before any resume when the call returned)
    sh->flag = true;
    if (!ret) wait_flag(returned, 60000);
    s.join();
    bool const fin_before_resume = wait_cond([&] { return sh->yfinished.load() == K; }, ret ? 10000 : 1);
    for (auto& x : asleep) x = false;
    resume_all_quiet();
    bool all = wait_done(nsub.load(), 30000);
    t_fin = now_ms() - T0;
    std::printf("OUT YLD %s setup=1 variant=%c caller=%c K=%d w=%d on_w=%d returned=%d ret_us=%ld err=%d states_at_return=%s polls_at_request=%ld polls_at_return=%ld "
                "polls_on_w_after_request=%ld woke_in_pre_sleep=%d progress_one=%d progress_all=%d fin_before_resume=%d all=%d %s body_on_suspended=%d ms_busy=%lld ms_poll=%lld ms_call=%lld ms_fin=%lld\n",
        id.c_str(), variant, caller, K, target, yon_target, int(ret), ret_us.load(), int(e), st_ret.c_str(), polls_at_request, polls_at_return, polls_on_target,
        woke_in_pre_sleep, progress_one, progress_all, int(fin_before_resume), int(all), ledger_check().c_str(), viol_body_on_suspended.load(), (long long) t_busy, (long long) t_poll,
        (long long) t_call, (long long) t_fin);
    std::fflush(stdout);
    end_case();
}

int main(int argc, char** argv)
{
    if (argc < 7) { std::fprintf(stderr, "usage\n"); return 2; }
    std::string casefile = argv[1];
    NW = std::atoi(argv[2]); EL = std::atoi(argv[3]) != 0; ST = std::atoi(argv[4]) != 0;
    std::string policy = argv[5];
    using pika::resource::scheduling_policy;
    scheduling_policy pol = scheduling_policy::local_priority_fifo;
    if (policy == "local") pol = scheduling_policy::local;
    else if (policy == "static_priority") pol = scheduling_policy::static_priority;
    else if (policy == "static") pol = scheduling_policy::static_;
    else if (policy == "local_priority_lifo") pol = scheduling_policy::local_priority_lifo;

    pika::init_params p;
    p.cfg = {"pika.os_threads=" + std::to_string(NW + 2)};
    p.rp_callback = [pol](auto& rp, pika::program_options::variables_map const&) {
        using pika::threads::scheduler_mode;
        scheduler_mode m = scheduler_mode::default_mode;
        if (EL) m = m | scheduler_mode::enable_elasticity;
        else m = scheduler_mode(m & ~scheduler_mode::enable_elasticity);
        if (!ST) m = scheduler_mode(m & ~scheduler_mode::enable_stealing & ~scheduler_mode::enable_stealing_numa);
        rp.create_thread_pool("w", pol, m);
        int added = 0;
        for (auto const& d : rp.sockets())
            for (auto const& c : d.cores())
                for (auto const& pu : c.pus())
                    if (added < NW) { rp.add_resource(pu, "w"); ++added; }
    };
    char* av[] = {argv[0], (char*) "--pika:ignore-process-mask", nullptr};
    pika::start(nullptr, 2, av, p);
    TP = &pika::resource::get_thread_pool("w");
    DP = &pika::resource::get_thread_pool("default");
    SCHED = static_cast<void const*>(TP->get_scheduler());
    std::printf("INFO pool w threads=%zu default threads=%zu policy=%s\n", pika::resource::get_num_threads("w"),
        pika::resource::get_num_threads("default"), policy.c_str());
    pika::verif::hook.store(&hook);
    std::thread wd(watchdog);
    wd.detach();

    std::ifstream in(casefile);
    std::string line;
    while (std::getline(in, line))
    {
        auto f = split(line, ' ');
        if (f.size() < 2) continue;
        if (f[0] == "SEQ" && f.size() >= 4) run_seq(f[1], f[2], f[3]);
        else if (f[0] == "CONC" && f.size() >= 6)
            run_conc(f[1], std::strtoull(f[2].c_str(), nullptr, 10), std::atoi(f[3].c_str()), std::atoi(f[4].c_str()), std::atoi(f[5].c_str()));
        else if (f[0] == "GATE" && f.size() >= 3) run_gate(f[1], std::atoi(f[2].c_str()));
        else if (f[0] == "LOWP") run_lowp(f[1]);
        else if (f[0] == "BLK" && f.size() >= 3) run_blk(f[1], std::strtoull(f[2].c_str(), nullptr, 10));
        else if (f[0] == "YLD" && f.size() >= 3) run_yld(f[1], std::strtoull(f[2].c_str(), nullptr, 10));
    }
    pika::verif::hook.store(nullptr);
    case_deadline_ms = now_ms() + 30000; cur_kind = "EXIT"; cur_id = "shutdown";
    resume_all_quiet();
    pika::finalize();
    int rc = pika::stop();
    std::printf("INFO stop rc=%d\n", rc);
    std::fflush(stdout);
    _exit(0);
}
