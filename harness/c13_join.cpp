// C13 harness: pika::thread / pika::jthread on the REAL runtime (4 workers).  Joiner and target
// are pika tasks.  Seeded perturbation (busy delays) at the hook sites 1301 (before
// add_thread_exit_callback), 1302 (between add and suspend), 1311/1312/1313 (inside
// run_thread_exit_callbacks, unlocked), 1321 (interrupt_thread between request and wake-up);
// the other sites only log.  Modes:
//   race <seed> <n>   join races; prints IN RACE (per-role event sequences for the model's
//                     acceptor) and MON RACE (monitors: join return vs "body finished" flag, ...)
//   f13 <seed> <n>    joiner's previous blocking call is a notified timed wait (defect F13)
//   seq <seed> <n>    sequential API histories (join/detach/joinable/double join/self join): IN/OUT SEQ
//   jthr <seed> <n>   jthread destruction: stop requested + joined
//   intr <seed> <n>   interruption: only at interruption points, only while enabled, only the target
//   rejoin <seed> <n> a joiner interrupted inside join() catches thread_interrupted and joins again
// Every case is bounded by a watchdog (30 s without progress: MON ... HANG, then the process exits).
#include "common/ctl.hpp"

#include <pika/condition_variable.hpp>
#include <pika/execution.hpp>
#include <pika/init.hpp>
#include <pika/mutex.hpp>
#include <pika/thread.hpp>

#include <atomic>
#include <chrono>
#include <cstdio>
#include <cstring>
#include <memory>
#include <mutex>
#include <string>
#include <thread>
#include <vector>

using namespace std::chrono_literals;
using clk = std::chrono::steady_clock;
namespace ex = pika::execution::experimental;
namespace tt = pika::this_thread::experimental;

struct Ev
{
    int site;
    void const* obj;
    std::uint64_t a;
};
static std::mutex g_evm;
static std::vector<Ev> g_ev;
static std::atomic<int> g_delay[40];    // per site (site - 1300), microseconds
static std::atomic<bool> g_logging{false};

static void spin_us(int us)
{
    if (us <= 0) return;
    auto t0 = clk::now();
    while (clk::now() - t0 < std::chrono::microseconds(us)) {}
}

// ---- rejoin scenario (mode rejoin): hand-shakes carried out inside the hooks
struct Rejoin
{
    std::atomic<bool> on{false};
    std::atomic<int> variant{0};    // 0 window: the second add lands between front()() and pop_front(); 1: second add before the target exits; 2: free running
    std::atomic<void const*> U{nullptr};
    std::atomic<void const*> J{nullptr};
    std::atomic<bool> tstarted{false}, at1313{false};
    std::atomic<int> n1301{0}, nadd{0}, nref{0}, n1313{0}, ncall{0}, nwake{0}, nchk0{0}, nran{0};
    void reset()
    {
        on = false; U = nullptr; J = nullptr; tstarted = false; at1313 = false;
        n1301 = 0; nadd = 0; nref = 0; n1313 = 0; ncall = 0; nwake = 0; nchk0 = 0; nran = 0;
    }
};
static Rejoin g_rj;
template <typename F>
static bool wait_bounded(F&& f, int ms)
{
    auto t0 = clk::now();
    while (!f())
    {
        if (clk::now() - t0 > std::chrono::milliseconds(ms)) return false;
        std::this_thread::yield();
    }
    return true;
}
static void rejoin_hook(int site, void const* obj, std::uint64_t a)
{
    void const* U = g_rj.U.load();
    void const* J = g_rj.J.load();
    if (U == nullptr) return;
    if (site == 1301 && obj == U)
    {
        int k = ++g_rj.n1301;
        // window variant: the joiner's SECOND registration waits until the target has invoked the
        // first callback and stands before pop_front()
        if (g_rj.variant == 0 && k == 2) wait_bounded([] { return g_rj.at1313.load(); }, 5000);
    }
    else if (site == 1316 && obj == U) { if (a) ++g_rj.nadd; else ++g_rj.nref; }
    else if (site == 1315 && obj == U) g_rj.tstarted = true;
    else if (site == 1312 && obj == U && g_rj.tstarted) ++g_rj.ncall;
    else if (site == 1314 && obj == U && g_rj.tstarted) ++g_rj.nran;
    else if (site == 1313 && obj == U && g_rj.tstarted)
    {
        int k = ++g_rj.n1313;
        if (g_rj.variant == 0 && k == 1)
        {
            g_rj.at1313 = true;
            wait_bounded([] { return g_rj.nadd.load() + g_rj.nref.load() >= 2; }, 5000);
        }
    }
    else if (site == 1303 && J != nullptr && obj == J) ++g_rj.nwake;
    else if (site == 1306 && J != nullptr && obj == J && a == 0) ++g_rj.nchk0;
}

static void hookfn(int site, void const* obj, std::uint64_t a, std::uint64_t)
{
    if (site < 1300 || site >= 1340) return;
    if (g_rj.on.load(std::memory_order_relaxed)) rejoin_hook(site, obj, a);
    if (g_logging.load(std::memory_order_relaxed))
    {
        std::lock_guard<std::mutex> l(g_evm);
        g_ev.push_back({site, obj, a});
    }
    // perturbation only where no lock is held
    if (site == 1301 || site == 1302 || site == 1311 || site == 1312 || site == 1313 || site == 1321 ||
        site == 1305)
        spin_us(g_delay[site - 1300].load(std::memory_order_relaxed));
}

// ---------------------------------------------------------------- watchdog
static std::atomic<long> g_beat{0};
static std::atomic<bool> g_done{false};
static char g_what[256] = "start";
static void watchdog()
{
    long last = -1;
    int same = 0;
    while (!g_done)
    {
        std::this_thread::sleep_for(100ms);
        long b = g_beat.load();
        if (b == last) { if (++same >= 300) { std::printf("MON %s HANG\n", g_what); std::fflush(stdout); _exit(0); } }
        else { same = 0; last = b; }
    }
}
static void beat(char const* kind, long id)
{
    std::snprintf(g_what, sizeof g_what, "%s %ld", kind, id);
    g_beat++;
}

static void set_delays(vctl::Rng& rng)
{
    for (int s : {1, 2, 5, 11, 12, 13, 21})
    {
        int d = 0;
        switch (rng.below(4))
        {
        case 0: d = 0; break;
        case 1: d = (int) rng.below(5); break;
        case 2: d = (int) rng.below(40); break;
        default: d = (int) rng.below(200); break;
        }
        g_delay[s] = d;
    }
}
static void clear_delays() { for (auto& d : g_delay) d = 0; }

// body kinds: 0 immediate, 1 yielding, 2 long running (busy), 3 blocking (sleeps), 4 spawns+joins a child
static void run_body(int kind, int amount)
{
    switch (kind)
    {
    case 0: break;
    case 1: for (int i = 0; i < amount; ++i) pika::this_thread::yield(); break;
    case 2: spin_us(amount * 10); break;
    case 3:
    {    // blocking: a timed wait that nobody notifies
        pika::condition_variable_any cv;
        pika::mutex m;
        std::unique_lock<pika::mutex> lk(m);
        cv.wait_for(lk, std::chrono::microseconds(amount * 10 + 1));
        break;
    }
    default:
    {
        std::atomic<bool> cdone{false};
        pika::thread child([&] { for (int i = 0; i < amount % 5; ++i) pika::this_thread::yield(); cdone = true; });
        child.join();
        if (!cdone) { std::printf("MON RACE -1 early=1 nested\n"); std::fflush(stdout); }
        break;
    }
    }
}

static std::string seq_of(void const* U, void const* J, bool joiner)
{
    std::string s;
    std::lock_guard<std::mutex> l(g_evm);
    bool started = false;    // the thread_data object may still emit events of its previous occupant
    for (auto const& e : g_ev)
    {
        if (!joiner && !started)
        {
            if (e.site == 1315 && e.obj == U) started = true; else continue;
        }
        if (joiner)
        {
            if (e.site == 1316 && e.obj == U) s += e.a ? "a1," : "a0,";
            else if (e.site == 1306 && e.obj == J) s += e.a ? "c1," : "c0,";
            else if (e.site == 1303 && e.obj == J) s += "w,";
            else if (e.site == 1304 && e.obj == J) s += "r,";
        }
        else
        {
            if (e.site == 1315 && e.obj == U) s += "b,";
            else if (e.site == 1312 && e.obj == U) s += "k,";
            else if (e.site == 1305 && e.obj == J) s += "f,";
            else if (e.site == 1313 && e.obj == U) s += "p,";
            else if (e.site == 1314 && e.obj == U) s += "n,";
        }
    }
    if (s.empty()) return "-";
    s.pop_back();
    return s;
}
// was <site> recorded for thread_data <obj> after its thread function returned (1315)?  Events
// recorded earlier belong to the previous occupant of the recycled thread_data object.
static bool saw(int site, void const* obj)
{
    std::lock_guard<std::mutex> l(g_evm);
    bool started = false;
    for (auto const& e : g_ev)
    {
        if (e.obj != obj) continue;
        if (e.site == 1315) started = true;
        else if (started && e.site == site) return true;
    }
    return false;
}

// ---------------------------------------------------------------- race / f13
struct Notifier
{
    pika::condition_variable_any cv;
    pika::mutex m;
    std::atomic<int> armed{0};
    std::atomic<bool> stop{false};
    std::thread th;
    void start(std::uint64_t seed)
    {
        th = std::thread([this, seed] {
            vctl::Rng r(seed);
            int last = 0;
            while (!stop)
            {
                int a = armed.load();
                if (a == last) { std::this_thread::yield(); continue; }
                last = a;
                spin_us(150 + (int) r.below(120));
                cv.notify_one();
            }
        });
    }
    void finish() { stop = true; th.join(); }
};

static void mode_race(std::uint64_t seed, int n, bool f13)
{
    vctl::Rng rng(seed);
    Notifier nt;
    nt.start(seed + 77);
    for (int cs = 0; cs < n; ++cs)
    {
        beat("RACE", cs);
        int kind = f13 ? (rng.chance(1, 2) ? 1 : 3) : (int) rng.below(5);
        int amount = f13 ? 100 + (int) rng.below(200) : (int) rng.below(30);
        bool pre = f13 || rng.chance(1, 6);    // notified timed wait right before join
        int jdelay = (int) rng.below(4) == 0 ? (int) rng.below(300) : 0;    // joiner starts late
        if (f13) clear_delays(); else set_delays(rng);
        {
            std::lock_guard<std::mutex> l(g_evm);
            g_ev.clear();
        }
        g_logging = true;
        auto finished = std::make_shared<std::atomic<bool>>(false);
        std::atomic<int> early{-1};
        std::atomic<int> cbseen{-1};
        std::atomic<void const*> Jp{nullptr};
        std::atomic<void const*> Up{nullptr};
        std::atomic<int> joinable_after{-1};
        // the target; for f13 it runs for ~1..3 ms (yielding or sleeping), so that join is called first
        pika::thread target([finished, kind, amount, f13] {
            if (f13 && kind == 1) { auto t0 = clk::now(); while (clk::now() - t0 < std::chrono::microseconds(amount * 10)) pika::this_thread::yield(); }
            else run_body(kind, amount);
            finished->store(true);
        });
        Up = target.native_handle().get();
        // the joiner is another pika task; main joins the joiner (nested join)
        pika::thread joiner([&] {
            Jp = pika::threads::detail::get_self_id().get();
            spin_us(jdelay);
            if (pre)
            {
                std::unique_lock<pika::mutex> lk(nt.m);
                nt.armed++;
                nt.cv.wait_for(lk, 200us);
            }
            target.join();
            bool fin = finished->load();
            early = fin ? 0 : 1;
            // exit callbacks ran: either this join's callback was invoked, or the target had already
            // marked its callbacks as run
            cbseen = (saw(1312, Up.load()) || saw(1314, Up.load())) ? 1 : 0;    // 1312 precedes the flag store
            joinable_after = target.joinable() ? 1 : 0;
        });
        joiner.join();
        while (!finished->load()) pika::this_thread::yield();
        // let the target finish its exit phase so that its records are complete (bounded)
        for (auto t0 = clk::now(); !saw(1314, Up.load()) && clk::now() - t0 < 2s;) pika::this_thread::yield();
        g_logging = false;
        clear_delays();
        std::string js = seq_of(Up.load(), Jp.load(), true), ts = seq_of(Up.load(), Jp.load(), false);
        std::printf("IN RACE %d J=%s T=%s\n", cs, js.c_str(), ts.c_str());
        std::printf("OUT RACE %d accept\n", cs);
        std::printf("MON RACE %d early=%d cbran=%d joinable_after=%d kind=%d pre=%d\n", cs, early.load(),
            cbseen.load(), joinable_after.load(), kind, (int) pre);
        std::fflush(stdout);
        pika::this_thread::yield();
    }
    nt.finish();
}

// ---------------------------------------------------------------- sequential histories
static char const* errname(pika::exception const& e)
{
    switch (e.get_error())
    {
    case pika::error::invalid_status: return "NJ";
    case pika::error::thread_resource_error: return "SELF";
    default: return "OTHER";
    }
}

static void mode_seq(std::uint64_t seed, int n)
{
    vctl::Rng rng(seed);
    for (int cs = 0; cs < n; ++cs)
    {
        beat("SEQ", cs);
        set_delays(rng);
        int m = 1 + (int) rng.below(3);         // handles 0..m-1, targets tasks 1..m
        int nops = 1 + (int) rng.below(8);
        std::vector<int> kinds(m), init(m);
        std::string desc;
        std::vector<std::unique_ptr<pika::thread>> h(m);
        for (int k = 0; k < m; ++k)
        {
            kinds[k] = (int) rng.below(4);
            init[k] = rng.chance(1, 6) ? 0 : 1;    // 0: default-constructed handle
            int amount = (int) rng.below(10);
            if (init[k]) h[k] = std::make_unique<pika::thread>([kd = kinds[k], amount] { run_body(kd, amount); });
            else h[k] = std::make_unique<pika::thread>();
        }
        std::string ops, res;
        for (int i = 0; i < nops; ++i)
        {
            int k = (int) rng.below(m);
            int op = (int) rng.below(rng.chance(1, 2) ? 1 : 3);    // 0 join, 1 detach, 2 joinable
            char buf[64];
            if (op == 0)
            {
                ops += "J" + std::to_string(k) + ",";
                try { h[k]->join(); res += "J" + std::to_string(k) + ":ok,"; }
                catch (pika::exception const& e) { res += "J" + std::to_string(k) + ":" + errname(e) + ","; }
            }
            else if (op == 1)
            {
                ops += "D" + std::to_string(k) + ",";
                h[k]->detach();
                res += "D" + std::to_string(k) + ",";
            }
            else
            {
                ops += "Q" + std::to_string(k) + ",";
                std::snprintf(buf, sizeof buf, "Q%d:%d,", k, h[k]->joinable() ? 1 : 0);
                res += buf;
            }
        }
        // a task that joins itself, then detaches (own handle)
        std::string selfres = "-";
        bool self = rng.chance(1, 3);
        if (self)
        {
            std::atomic<pika::thread*> me{nullptr};
            std::atomic<bool> sdone{false};
            std::string r;
            auto* p = new pika::thread([&] {
                while (!me.load()) pika::this_thread::yield();
                pika::thread* t = me.load();
                try { t->join(); r += "J0:ok,"; }
                catch (pika::exception const& e) { r += std::string("J0:") + errname(e) + ","; }
                r += std::string("Q0:") + (t->joinable() ? "1" : "0") + ",";
                t->detach();
                r += "D0,";
                r += std::string("Q0:") + (t->joinable() ? "1" : "0") + ",";
                sdone = true;
            });
            me = p;
            while (!sdone) pika::this_thread::yield();
            delete p;
            selfres = r;
            selfres.pop_back();
        }
        // final state of all handles, then release them
        for (int k = 0; k < m; ++k)
        {
            ops += "Q" + std::to_string(k) + ",";
            res += "Q" + std::to_string(k) + ":" + (h[k]->joinable() ? "1" : "0") + ",";
            if (h[k]->joinable()) h[k]->join();
            h[k].reset();
        }
        ops.pop_back();
        res.pop_back();
        std::string ini;
        for (int k = 0; k < m; ++k) ini += init[k] ? '1' : '0';
        clear_delays();
        std::printf("IN SEQ %d %d %s %s %d\n", cs, m, ini.c_str(), ops.c_str(), self ? 1 : 0);
        std::printf("OUT SEQ %d main=%s self=%s\n", cs, res.c_str(), selfres.c_str());
        std::fflush(stdout);
    }
}

// ---------------------------------------------------------------- jthread
static void mode_jthr(std::uint64_t seed, int n)
{
    vctl::Rng rng(seed);
    for (int cs = 0; cs < n; ++cs)
    {
        beat("JTHR", cs);
        set_delays(rng);
        int variant = (int) rng.below(3);    // 0 polls the token, 1 ignores it (finishes alone), 2 polls + yields a lot
        int wait = (int) rng.below(3) == 0 ? (int) rng.below(300) : 0;
        std::atomic<bool> finished{false}, sawstop{false};
        bool stop_at_dtor = false;
        {
            pika::jthread jt([&, variant](pika::stop_token st) {
                if (variant == 1) { run_body((int) (seed % 3), 5); }
                else
                {
                    while (!st.stop_requested())
                    {
                        if (variant == 2) pika::this_thread::yield(); else spin_us(5);
                    }
                    sawstop = true;
                }
                finished = true;
            });
            spin_us(wait);
            if (rng.chance(1, 8)) pika::this_thread::yield();
            stop_at_dtor = jt.get_stop_token().stop_requested();
        }    // ~jthread: request_stop + join
        bool fin = finished.load(), ss = sawstop.load();
        clear_delays();
        std::printf("MON JTHR %d finished=%d sawstop=%d variant=%d stopped_before_dtor=%d\n", cs, (int) fin,
            (int) ss, variant, (int) stop_at_dtor);
        std::fflush(stdout);
        while (!finished) pika::this_thread::yield();
    }
}

// ---------------------------------------------------------------- interruption
// yield without the noexcept of this_thread::yield (which terminates the process when the
// interruption is delivered inside it — recorded finding); an interruption point like yield
static void ysusp()
{
    pika::this_thread::suspend(pika::threads::detail::thread_schedule_state::pending, "c13");
}

// this_thread::yield() is declared noexcept but contains interruption points
static void mode_intry()
{
    std::atomic<bool> started{false};
    pika::thread target([&] { started = true; for (;;) pika::this_thread::yield(); });
    while (!started) pika::this_thread::yield();
    std::printf("MON INTRY 0 interrupting\n");
    std::fflush(stdout);
    target.interrupt();
    target.join();
    std::printf("MON INTRY 0 joined\n");
    std::fflush(stdout);
}

static void mode_intr(std::uint64_t seed, int n)
{
    vctl::Rng rng(seed);
    for (int cs = 0; cs < n; ++cs)
    {
        beat("INTR", cs);
        set_delays(rng);
        int scen = (int) rng.below(3);
        // where the target is when thread_interrupted reaches it: 0 nowhere, 1 explicit point
        // (enabled), 2 inside the disabled region, 3 in non-interruptible code
        std::atomic<int> where{0}, region{0};
        std::atomic<bool> go{false}, tfin{false}, bystander_hit{false}, stopby{false}, other_exc{false};
        std::atomic<int> refused{0}, accepted{0};
        // bystander: hits interruption points all the time, must never be interrupted
        pika::thread by([&] {
            try { while (!stopby) { pika::this_thread::interruption_point(); ysusp(); } }
            catch (pika::thread_interrupted const&) { bystander_hit = true; }
        });
        pika::thread target([&] {
            try
            {
                if (scen == 0)
                {    // enabled all the time: interrupted at a point
                    region = 1;
                    for (;;) { pika::this_thread::interruption_point(); ysusp(); }
                }
                else if (scen == 1)
                {    // disabled while the request is made: the request is refused, nothing is delivered
                    {
                        pika::this_thread::disable_interruption di;
                        region = 2;
                        while (!go) { pika::this_thread::interruption_point(); ysusp(); }
                        region = 3;
                    }
                    region = 1;
                    for (;;) { pika::this_thread::interruption_point(); ysusp(); }
                }
                else
                {    // request made while enabled and running (no interruption point), then disabled
                    region = 3;
                    while (!go) std::this_thread::yield();    // active for pika (no pika call): the interrupter waits inside interrupt()
                    {
                        pika::this_thread::disable_interruption di;
                        region = 2;
                        for (int i = 0; i < 3; ++i) { pika::this_thread::interruption_point(); ysusp(); }
                        region = 3;
                    }
                    region = 1;
                    for (;;) { pika::this_thread::interruption_point(); ysusp(); }
                }
            }
            catch (pika::thread_interrupted const&) { where = region.load(); tfin = true; throw; }
            catch (...) { other_exc = true; tfin = true; }
            tfin = true;
        });
        while (region.load() == 0) pika::this_thread::yield();
        if (scen == 2)
        {
            // a helper sets go once the request is visible
            pika::thread helper([&] {
                while (!target.interruption_requested()) pika::this_thread::yield();
                go = true;
            });
            try { target.interrupt(); accepted++; } catch (pika::exception const&) { refused++; }
            helper.join();
        }
        else if (scen == 1)
        {
            for (int i = 0; i < 3; ++i)
            {
                try { target.interrupt(); accepted++; } catch (pika::exception const& e)
                { if (e.get_error() == pika::error::thread_not_interruptable) refused++; }
                pika::this_thread::yield();
            }
            int acc_disabled = accepted.load();
            go = true;
            while (!tfin)
            {
                try { target.interrupt(); } catch (pika::exception const&) {}
                pika::this_thread::yield();
            }
            accepted = acc_disabled;
        }
        else
        {
            try { target.interrupt(); accepted++; } catch (pika::exception const&) { refused++; }
        }
        target.join();
        bool fin = tfin.load();
        stopby = true;
        by.join();
        clear_delays();
        std::printf("MON INTR %d scen=%d where=%d finished=%d bystander=%d accepted=%d refused=%d other=%d\n", cs,
            scen, where.load(), (int) fin, (int) bystander_hit.load(), accepted.load(), refused.load(),
            (int) other_exc.load());
        std::fflush(stdout);
    }
}

// ---------------------------------------------------------------- join again after an interruption
// A joiner J is interrupted while it waits inside t.join(): thread_interrupted leaves join(), the
// handle is still joinable, J catches and calls t.join() AGAIN.  The first exit callback (with its own
// completion flag) is still registered at the target; the second join registers another one.
// Property: the second join returns once the target has finished (and not before).
static void mode_rejoin(std::uint64_t seed, int n)
{
    vctl::Rng rng(seed * 0x9E3779B97F4A7C15ull + 13);
    int notret = 0;
    for (int cs = 0; cs < n && notret < 5; ++cs)    // every non-returning join costs 3 s: stop after 5
    {
        beat("REJOIN", cs);
        int variant = cs < 3 ? cs : (int) rng.below(3);
        g_rj.reset();
        g_rj.variant = variant;
        if (variant == 2) set_delays(rng); else clear_delays();
        std::atomic<bool> go{false}, finished{false}, returned{false}, giveup{false};
        std::atomic<int> early{-1}, ncaught{0}, attempts{0}, joinable_after{-1};
        pika::thread target([&] {
            while (!go) pika::this_thread::yield();
            finished = true;
        });
        g_rj.U = target.native_handle().get();
        g_rj.on = true;
        pika::thread joiner([&] {
            g_rj.J = pika::threads::detail::get_self_id().get();
            for (;;)
            {
                try
                {
                    ++attempts;
                    target.join();
                    early = finished.load() ? 0 : 1;
                    joinable_after = target.joinable() ? 1 : 0;
                    returned = true;
                    break;
                }
                catch (pika::thread_interrupted const&)
                {
                    ++ncaught;
                    if (giveup) break;
                }
            }
        });
        // J waits inside join #1 (flag read: not set); the interruption may also arrive just before it suspends
        bool w1 = wait_bounded([&] { pika::this_thread::yield(); return g_rj.nchk0.load() >= 1; }, 5000);
        spin_us((int) rng.below(60));
        bool intr_ok = true;
        try { joiner.interrupt(); } catch (pika::exception const&) { intr_ok = false; }
        bool w2 = true;
        if (variant == 0) w2 = wait_bounded([&] { pika::this_thread::yield(); return ncaught.load() >= 1; }, 5000);
        else if (variant == 1) w2 = wait_bounded([&] { pika::this_thread::yield(); return g_rj.nadd.load() >= 2; }, 5000);
        go = true;
        bool ret = wait_bounded([&] { pika::this_thread::yield(); return returned.load(); }, 3000);
        int wakes = g_rj.nwake.load(), adds = g_rj.nadd.load(), refs = g_rj.nref.load(), calls = g_rj.ncall.load();
        if (!ret)
        {    // unblock the joiner: a second interruption ends it
            ++notret;
            giveup = true;
            try { joiner.interrupt(); } catch (pika::exception const&) {}
        }
        joiner.join();
        wait_bounded([&] { pika::this_thread::yield(); return finished.load(); }, 5000);
        if (target.joinable()) target.join();
        wait_bounded([&] { pika::this_thread::yield(); return g_rj.nran.load() >= 1; }, 2000);
        calls = g_rj.ncall.load();
        g_rj.on = false;
        clear_delays();
        std::printf("MON REJOIN %d var=%d returned=%d early=%d joinable_after=%d caught=%d attempts=%d adds=%d refused=%d calls=%d wakes=%d "
                    "setup=%d%d%d\n",
            cs, variant, (int) ret, early.load(), joinable_after.load(), ncaught.load(), attempts.load(), adds, refs, calls, wakes,
            (int) w1, (int) intr_ok, (int) w2);
        std::fflush(stdout);
    }
}

int main(int argc, char** argv)
{
    std::string mode = argc > 1 ? argv[1] : "race";
    std::uint64_t seed = argc > 2 ? std::strtoull(argv[2], nullptr, 10) : 1;
    int n = argc > 3 ? std::atoi(argv[3]) : 100;
    char* av[] = {argv[0], (char*) "--pika:threads=4", nullptr};
    int ac = 2;
    pika::verif::hook.store(&hookfn, std::memory_order_release);
    std::thread wd(watchdog);
    pika::start(ac, av);
    ex::thread_pool_scheduler sched{};
    tt::sync_wait(ex::schedule(sched) | ex::then([&] {
        if (mode == "race") mode_race(seed, n, false);
        else if (mode == "f13") mode_race(seed, n, true);
        else if (mode == "seq") mode_seq(seed, n);
        else if (mode == "jthr") mode_jthr(seed, n);
        else if (mode == "intr") mode_intr(seed, n);
        else if (mode == "intry") mode_intry();
        else if (mode == "rejoin") mode_rejoin(seed, n);
    }));
    pika::finalize();
    int rc = pika::stop();
    g_done = true;
    wd.join();
    std::printf("END %s rc=%d\n", mode.c_str(), rc);
    return 0;
}
