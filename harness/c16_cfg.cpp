// C16 PROC harness: one process = one case.  The driver (tools/props/c16.py) sets the
// environment and the command line; this program starts the REAL runtime with them
// (pika::start with an (int, char**) entry point), and prints, from inside the started
// runtime, what the runtime actually uses:
//   workers   number of worker threads of the runtime
//   sched     scheduling policy chosen by the resource partitioner for the default pool + the
//             description of the scheduler object that was really instantiated
//   aff       per-worker PU mask as configured in the thread pool (+ what the OS reports for the
//             calling OS thread of each worker)
//   stacks    configured stack sizes (runtime configuration) and the stack size of a task
//             created with the default (small) stack
//   cfg       selected entries of the runtime configuration (expanded)
//   argv      the arguments as seen by the application entry point
// Every string is printed hex-encoded (no spaces/newlines in the protocol).
// Line protocol on stdout:  "C16 <tag> k=v k=v ..." ; the last line is "C16 STOP rc=<n>".
#include <pika/execution.hpp>
#include <pika/init.hpp>
#include <pika/runtime.hpp>
#include <pika/thread.hpp>
#include <pika/modules/resource_partitioner.hpp>
#include <pika/resource_partitioner/detail/partitioner.hpp>
#include <pika/runtime/config_entry.hpp>
#include <pika/runtime/thread_pool_helpers.hpp>
#include <pika/topology/topology.hpp>

#include <sched.h>

#include <atomic>
#include <cstdio>
#include <cstdlib>
#include <cstring>
#include <set>
#include <string>
#include <vector>

namespace ex = pika::execution::experimental;
namespace tt = pika::this_thread::experimental;

static std::string hex(std::string const& s)
{
    static char const* d = "0123456789abcdef";
    std::string r;
    for (unsigned char c : s)
    {
        r.push_back(d[c >> 4]);
        r.push_back(d[c & 15]);
    }
    return r.empty() ? "-" : r;
}

static std::vector<std::string> cfg_keys;

static int app_main(int argc, char** argv)
{
    // argv as the application sees it
    std::string a;
    for (int i = 0; i < argc; ++i)
    {
        if (i) a += ",";
        a += hex(argv[i] ? argv[i] : "<null>");
    }
    std::printf("C16 ARGV argc=%d argv=%s last_null=%d\n", argc, a.c_str(), argv[argc] == nullptr ? 1 : 0);

    // workers
    std::size_t nw = pika::get_num_worker_threads();
    std::size_t osc = pika::get_os_thread_count();
    auto& pool = pika::resource::get_thread_pool(0);
    std::printf("C16 WORKERS workers=%zu os_thread_count=%zu pool_threads=%zu npools=%zu\n", nw, osc,
        pool.get_os_thread_count(), pika::resource::get_num_thread_pools());

    // scheduler
    auto& rp = pika::resource::get_partitioner();
    int pol = (int) rp.which_scheduler(pool.get_pool_name());
    std::printf("C16 SCHED policy=%d desc=%s\n", pol, hex(pool.get_scheduler()->get_description()).c_str());

    // affinity: configured mask per worker
    {
        std::string m;
        for (std::size_t i = 0; i < nw; ++i)
        {
            if (i) m += ",";
            m += pika::threads::detail::to_string(rp.get_pu_mask(i));
        }
        std::printf("C16 AFF masks=%s used=%s\n", m.c_str(),
            pika::threads::detail::to_string(pool.get_used_processing_units()).c_str());
    }

    // stack sizes
    {
        auto const& c = pika::detail::get_runtime().get_config();
        std::ptrdiff_t self = pika::threads::detail::get_self_stacksize();
        std::printf("C16 STACKS small=%td medium=%td large=%td huge=%td self=%td\n",
            c.get_stack_size(pika::execution::thread_stacksize::small_),
            c.get_stack_size(pika::execution::thread_stacksize::medium),
            c.get_stack_size(pika::execution::thread_stacksize::large),
            c.get_stack_size(pika::execution::thread_stacksize::huge), self);
    }

    // selected configuration entries
    {
        std::string s;
        for (auto const& k : cfg_keys)
        {
            if (!s.empty()) s += ",";
            s += k + ":" + hex(pika::detail::get_config_entry(k, "<unset>"));
        }
        std::printf("C16 CFG %s\n", s.empty() ? "-" : s.c_str());
    }
    std::fflush(stdout);
    pika::finalize();
    return 0;
}

int main(int argc, char** argv)
{
    // which config entries to print: C16_KEYS=key,key,...  (not a PIKA_ variable)
    if (char const* k = std::getenv("C16_KEYS"))
    {
        std::string s(k);
        std::size_t p = 0;
        while (p <= s.size())
        {
            std::size_t q = s.find(',', p);
            if (q == std::string::npos) q = s.size();
            if (q > p) cfg_keys.push_back(s.substr(p, q - p));
            p = q + 1;
        }
    }
    // machine facts the model needs as inputs (they are not part of the configuration logic)
    {
        auto& top = pika::threads::detail::get_topology();
        std::printf("C16 MACHINE pus=%u cores=%zu maskcount=%zu mask=%s\n", pika::threads::detail::hardware_concurrency(),
            top.get_number_of_cores(), pika::threads::detail::count(top.get_cpubind_mask_main_thread()),
            pika::threads::detail::to_string(top.get_cpubind_mask_main_thread()).c_str());
        // the PU mask of every core (the keyword `cores` counts the cores that have a PU in the effective mask);
        // masks are printed by to_string as one digit per PU (most significant first), not as a hexadecimal number
        std::string cm;
        for (std::size_t i = 0; i < top.get_number_of_cores(); ++i)
        {
            if (i) cm += ",";
            cm += pika::threads::detail::to_string(top.init_core_affinity_mask_from_core(i));
        }
        std::printf("C16 TOPO coremasks=%s\n", cm.c_str());
        std::fflush(stdout);
    }
    std::function<int(int, char**)> f = app_main;
    pika::start(f, argc, argv);
    int r = pika::stop();
    std::printf("C16 STOP rc=%d\n", r);
    std::fflush(stdout);
    return r == 0 ? 0 : 3;
}
