// C11 on NON-DEFAULT pools: ex::bulk on thread_pool_scheduler{&pool} for pools created through the
// resource partitioner — a default pool with D (1..2) PUs in front and a second pool "bulk" with S (2..3) PUs, so
// that the GLOBAL worker numbers of the second pool (D .. D+S-1) differ from its pool-local ones (0 .. S-1) — with
// the predecessor completing on each worker of the target pool and calls of f that take 20-150 us (the spawned
// worker tasks really overlap with the local part and with each other).
// The observations are those of harness/c11_e2e.cpp (per-index counters, count and index sum, counting receiver
// with payload check, snapshot of entered/left calls at the moment the receiver is signalled, calls after the
// signal) and go through the same monitor (tools/props/c11.py e2e_monitor): every index exactly once and none
// outside [0,n), values forwarded to every call and to the receiver, exactly one completion, no call in flight
// when the receiver is signalled, error iff a call threw (carrying a thrown index).
//
// usage: c11_pool <seed> <ncases> <start_id> <D> <S> <policy of the second pool>
// predecessor kinds (pred):
//   0  just(42,"c11-values") | continues_on(sched)                         | bulk   (round robin worker of the pool)
//   1  just(42,"c11-values") | continues_on(with_hint(sched, worker w))    | bulk   (w cycles over the workers)
//   2  schedule(with_hint(sched, worker w))                                | bulk   (no values)
//   4  transfer_just(sched, 42, "c11-values")                              | bulk
// (3 is the generic fallback in c11_e2e.cpp and is not used here.)
// per case:  RUN POOL <id> ...  then  OBS POOL <id> key=value ...; a case that does not complete within 12 s prints
// "OBS POOL <id> hang=1 ..." and the process exits with code 7 (the plug-in restarts after that case).
#include <pika/execution.hpp>
#include <pika/init.hpp>
#include <pika/runtime.hpp>

#include <algorithm>
#include <atomic>
#include <chrono>
#include <cinttypes>
#include <condition_variable>
#include <cstdint>
#include <cstdio>
#include <cstdlib>
#include <deque>
#include <exception>
#include <functional>
#include <memory>
#include <mutex>
#include <string>
#include <thread>
#include <unistd.h>
#include <vector>

#if !defined(PIKA_VERIF)
# error "harnesses must be compiled with -DPIKA_VERIF"
#endif

namespace ex = pika::execution::experimental;

struct Rng
{
    std::uint64_t s;
    explicit Rng(std::uint64_t seed)
      : s(seed * 0x9E3779B97F4A7C15ull + 0x7654321ull)
    {
    }
    std::uint64_t next()
    {
        std::uint64_t z = (s += 0x9E3779B97F4A7C15ull);
        z = (z ^ (z >> 30)) * 0xBF58476D1CE4E5B9ull;
        z = (z ^ (z >> 27)) * 0x94D049BB133111EBull;
        return z ^ (z >> 31);
    }
    std::uint64_t below(std::uint64_t n) { return n ? next() % n : 0; }
};

struct bulk_exc
{
    std::uint64_t i;
};

constexpr int MAXSLOT = 64;
constexpr std::uint64_t MAXN = 4096;

struct alignas(64) Acc
{
    std::atomic<std::uint64_t> entered{0}, exited{0}, sum{0}, throws{0}, late{0}, oob{0}, argbad{0}, offpool{0};
};

struct Ctx
{
    std::uint64_t n = 0;
    int mode = 0;    // throwing: 0 none, 1 all, 2 set
    std::vector<std::uint64_t> tset;
    std::uint64_t costseed = 0;
    bool with_vals = false;
    std::size_t pool_index = 0;
    std::atomic<std::uint8_t> counters[MAXN];
    Acc acc[MAXSLOT];
    std::atomic<int> h1101{0};
    std::atomic<std::uint64_t> sv_local{~0ull}, sv_global{~0ull}, sv_pool{~0ull};
    std::atomic<int> nvalue{0}, nerror{0}, nstopped{0};
    std::atomic<int> val_ok{1};
    std::string err = "none";
    std::uint64_t snap_in = 0, snap_out = 0;
    std::atomic<bool> completed{false};
    std::mutex m;
    std::condition_variable cv;

    bool throws(std::uint64_t i) const
    {
        if (mode == 1) return true;
        if (mode == 2)
            for (auto x : tset)
                if (x == i) return true;
        return false;
    }
    std::uint64_t total(std::atomic<std::uint64_t> Acc::*f) const
    {
        std::uint64_t s = 0;
        for (auto const& a : acc) s += (a.*f).load(std::memory_order_relaxed);
        return s;
    }
    void signal_done()
    {
        snap_in = total(&Acc::entered);
        snap_out = total(&Acc::exited);
        completed.store(true, std::memory_order_release);
        std::lock_guard l(m);
        cv.notify_all();
    }
};

static std::atomic<Ctx*> g_ctx{nullptr};
static std::atomic<int> g_nslots{0};
static thread_local int t_slot = -1;
static int slot()
{
    if (t_slot < 0) t_slot = g_nslots.fetch_add(1) % MAXSLOT;
    return t_slot;
}

static void hook(int site, void const*, std::uint64_t, std::uint64_t)
{
    if (site != 1101) return;
    Ctx* c = g_ctx.load(std::memory_order_acquire);
    if (!c) return;
    c->h1101++;
    c->sv_local = pika::get_local_worker_thread_num();
    c->sv_global = pika::get_worker_thread_num();
    c->sv_pool = pika::get_thread_pool_num();
}

struct Body
{
    Ctx* c;
    template <typename I>
    void common(I i0) const
    {
        std::uint64_t i = static_cast<std::uint64_t>(i0);
        Acc& a = c->acc[slot()];
        a.entered.fetch_add(1, std::memory_order_acq_rel);
        if (c->completed.load(std::memory_order_acquire)) a.late.fetch_add(1);
        if (i0 < 0 || i >= c->n) a.oob.fetch_add(1);
        else if (i < MAXN)
        {
            auto& ctr = c->counters[i];
            if (ctr.load(std::memory_order_relaxed) < 200) ctr.fetch_add(1, std::memory_order_relaxed);
        }
        a.sum.fetch_add(i);
        if (pika::get_thread_pool_num() != c->pool_index) a.offpool.fetch_add(1);
        // 20..150 us per call
        std::uint64_t h = (i + 1) * 0x9E3779B97F4A7C15ull ^ c->costseed;
        auto d = std::chrono::microseconds(20 + (h >> 33) % 131);
        auto t0 = std::chrono::steady_clock::now();
        while (std::chrono::steady_clock::now() - t0 < d) {}
        bool th = c->mode != 0 && c->throws(i);
        if (th) a.throws.fetch_add(1);
        if (c->completed.load(std::memory_order_acquire)) a.late.fetch_add(1);
        a.exited.fetch_add(1, std::memory_order_acq_rel);
        if (th) throw bulk_exc{i};
    }
    template <typename I>
    void operator()(I i) const
    {
        common(i);
    }
    template <typename I>
    void operator()(I i, int& x, std::string& s) const
    {
        if (x != 42 || s != "c11-values") c->acc[slot()].argbad.fetch_add(1, std::memory_order_relaxed);
        common(i);
    }
};

struct Rcv
{
    Ctx* c;
    void set_value() && noexcept
    {
        if (c->with_vals) c->val_ok = 0;
        c->nvalue++;
        c->signal_done();
    }
    void set_value(int x, std::string s) && noexcept
    {
        if (!c->with_vals || x != 42 || s != "c11-values") c->val_ok = 0;
        c->nvalue++;
        c->signal_done();
    }
    void set_error(std::exception_ptr ep) && noexcept
    {
        std::string p = "other";
        try
        {
            if (ep) std::rethrow_exception(ep);
            p = "null";
        }
        catch (bulk_exc const& e)
        {
            char b[32];
            std::snprintf(b, sizeof b, "%" PRIx64, e.i);
            p = b;
        }
        catch (...)
        {
        }
        if (c->nerror.fetch_add(1) == 0) c->err = p;
        c->signal_done();
    }
    template <class E>
    void set_error(E&&) && noexcept
    {
        if (c->nerror.fetch_add(1) == 0) c->err = "other";
        c->signal_done();
    }
    void set_stopped() && noexcept
    {
        c->nstopped++;
        c->signal_done();
    }
    constexpr ex::empty_env get_env() const noexcept { return {}; }
};

static std::deque<std::function<void()>> g_ring;    // keeps contexts and operation states alive for a while
static void retain(std::function<void()> del)
{
    g_ring.push_back(std::move(del));
    while (g_ring.size() > 6)
    {
        g_ring.front()();
        g_ring.pop_front();
    }
}

template <typename T>
static void start_case(Ctx* c, ex::thread_pool_scheduler sched, int pred, T n, unsigned w)
{
    auto hs = ex::with_hint(sched,
        pika::execution::thread_schedule_hint(pika::execution::thread_schedule_hint_mode::thread, (std::int16_t) w));
    switch (pred)
    {
    case 0:
    {
        auto* os = new auto(
            ex::connect(ex::bulk(ex::just(42, std::string("c11-values")) | ex::continues_on(sched), n, Body{c}), Rcv{c}));
        retain([os] { delete os; });
        ex::start(*os);
        break;
    }
    case 1:
    {
        auto* os = new auto(
            ex::connect(ex::bulk(ex::just(42, std::string("c11-values")) | ex::continues_on(hs), n, Body{c}), Rcv{c}));
        retain([os] { delete os; });
        ex::start(*os);
        break;
    }
    case 2:
    {
        auto* os = new auto(ex::connect(ex::bulk(ex::schedule(hs), n, Body{c}), Rcv{c}));
        retain([os] { delete os; });
        ex::start(*os);
        break;
    }
    default:
    {
        auto* os = new auto(
            ex::connect(ex::bulk(ex::transfer_just(sched, 42, std::string("c11-values")), n, Body{c}), Rcv{c}));
        retain([os] { delete os; });
        ex::start(*os);
        break;
    }
    }
}

static int g_D = 1, g_S = 2;
static std::string g_policy = "local-priority-fifo";
static pika::resource::scheduling_policy policy_enum(std::string const& p)
{
    using sp = pika::resource::scheduling_policy;
    if (p == "local") return sp::local;
    if (p == "static") return sp::static_;
    if (p == "static-priority") return sp::static_priority;
    if (p == "local-priority-fifo") return sp::local_priority_fifo;
    if (p == "local-priority-lifo") return sp::local_priority_lifo;
    if (p == "abp-priority-fifo") return sp::abp_priority_fifo;
    return sp::abp_priority_lifo;
}
static void rp_callback(pika::resource::partitioner& rp, pika::program_options::variables_map const&)
{
    rp.create_thread_pool("bulk", policy_enum(g_policy), pika::threads::scheduler_mode::default_mode);
    int n = 0, used = 0;
    for (auto const& s : rp.sockets())
        for (auto const& c : s.cores())
            for (auto const& p : c.pus())
            {
                if (n >= g_D && used < g_S)
                {
                    rp.add_resource(p, "bulk");
                    ++used;
                }
                ++n;
            }
}

int main(int argc, char** argv)
{
    std::uint64_t seed = argc > 1 ? std::strtoull(argv[1], nullptr, 10) : 1;
    int ncases = argc > 2 ? std::atoi(argv[2]) : 40;
    int start = argc > 3 ? std::atoi(argv[3]) : 0;
    g_D = argc > 4 ? std::atoi(argv[4]) : 1;
    g_S = argc > 5 ? std::atoi(argv[5]) : 2;
    g_policy = argc > 6 ? argv[6] : "local-priority-fifo";
    setvbuf(stdout, nullptr, _IOLBF, 0);
    std::string a0 = argv[0], a1 = "--pika:threads=" + std::to_string(g_D + g_S);
    std::vector<char*> av = {a0.data(), a1.data(), nullptr};
    pika::init_params ip;
    ip.rp_callback = &rp_callback;
    pika::start(2, av.data(), ip);
    auto* pdef = &pika::resource::get_thread_pool("default");
    auto* pbulk = &pika::resource::get_thread_pool("bulk");
    if (int(pdef->get_os_thread_count()) != g_D || int(pbulk->get_os_thread_count()) != g_S)
    {
        std::printf("TIEFAIL pools have %zu + %zu threads, expected %d + %d\n", pdef->get_os_thread_count(),
            pbulk->get_os_thread_count(), g_D, g_S);
        std::fflush(stdout);
        std::_Exit(3);
    }
    std::printf("POOLS default=%d(index %zu, first global worker %zu) bulk=%d(index %zu, first global worker %zu) policy=%s\n", g_D,
        pdef->get_pool_index(), pdef->get_thread_offset(), g_S, pbulk->get_pool_index(), pbulk->get_thread_offset(), g_policy.c_str());
    pika::verif::hook.store(&hook);

    static char const* tnames[4] = {"u8", "i32", "u32", "u64"};
    static int const tbits[4] = {8, 32, 32, 64};

    for (int id = start; id < ncases; ++id)
    {
        Rng rng(seed * 1000003ull + (std::uint64_t) id * 131 + (std::uint64_t) (g_D * 16 + g_S));
        auto* c = new Ctx;
        for (auto& x : c->counters) x.store(0, std::memory_order_relaxed);
        bool on_bulk = rng.below(5) != 0;
        auto* pool = on_bulk ? pbulk : pdef;
        std::uint64_t const W = pool->get_os_thread_count();
        c->pool_index = pool->get_pool_index();
        static int const preds[4] = {0, 1, 2, 4};
        int pred = preds[rng.below(4)];
        unsigned w = unsigned(std::uint64_t(id) % W);
        int ty = int(rng.below(4));
        std::uint64_t v;
        switch (rng.below(8))
        {
        case 0: v = rng.below(3); break;                 // 0,1,2
        case 1: v = W - 1 + rng.below(3); break;         // W-1, W, W+1
        case 2: v = 8 * W - 1 + rng.below(3); break;     // around one chunk per 8 per worker
        case 3: v = 16 * W + rng.below(4); break;
        default: v = 3 + rng.below(118); break;
        }
        if (v > 250) v = 250;
        c->n = v;
        c->costseed = rng.next();
        std::string spec = "none";
        std::uint64_t m = rng.below(100);
        if (m < 62) {}
        else if (m < 70)
        {
            c->mode = 1;
            spec = "all";
        }
        else
        {
            c->mode = 2;
            int cnt = 1 + (int) rng.below(3);
            spec = "set:";
            for (int j = 0; j < cnt; ++j)
            {
                std::uint64_t x = rng.below(4) == 0 ? c->n + rng.below(3) : rng.below(c->n + 1);
                if (rng.below(5) == 0 && c->n > 0) x = c->n - 1;
                c->tset.push_back(x);
                char b[32];
                std::snprintf(b, sizeof b, "%s%" PRIx64, j ? "." : "", x);
                spec += b;
            }
        }
        c->with_vals = pred != 2;
        std::printf("RUN POOL %d pool=%s type=%s W=%" PRIu64 " n=%" PRIx64 " pred=%d throw=%s hint=%u\n", id, on_bulk ? "bulk" : "default",
            tnames[ty], W, c->n, pred, spec.c_str(), w);
        std::fflush(stdout);
        g_ctx.store(c, std::memory_order_release);
        auto t0 = std::chrono::steady_clock::now();
        ex::thread_pool_scheduler sched{pool};
        switch (ty)
        {
        case 0: start_case<std::uint8_t>(c, sched, pred, (std::uint8_t) c->n, w); break;
        case 1: start_case<std::int32_t>(c, sched, pred, (std::int32_t) c->n, w); break;
        case 2: start_case<std::uint32_t>(c, sched, pred, (std::uint32_t) c->n, w); break;
        default: start_case<std::uint64_t>(c, sched, pred, (std::uint64_t) c->n, w); break;
        }
        bool done;
        {
            std::unique_lock l(c->m);
            done = c->cv.wait_for(l, std::chrono::seconds(12), [&] { return c->completed.load(std::memory_order_acquire); });
        }
        double secs = std::chrono::duration<double>(std::chrono::steady_clock::now() - t0).count();
        if (!done)
        {
            std::printf("OBS POOL %d hang=1 pool=%s n=%" PRIx64 " type=%s W=%" PRIu64 " pred=%d throw=%s calls=%" PRIu64 " h1101=%d\n", id,
                on_bulk ? "bulk" : "default", c->n, tnames[ty], W, pred, spec.c_str(), c->total(&Acc::entered), c->h1101.load());
            std::fflush(stdout);
            _exit(7);
        }
        // grace: every worker task still inside finish() or (under a defect) inside f gets out; a second completion shows up
        for (int spin = 0; spin < 400; ++spin)
        {
            if (c->total(&Acc::entered) == c->total(&Acc::exited) && spin >= 4) break;
            std::this_thread::sleep_for(std::chrono::microseconds(50));
        }
        std::this_thread::sleep_for(std::chrono::microseconds(400));
        g_ctx.store(nullptr, std::memory_order_release);

        std::uint64_t calls = c->total(&Acc::entered);
        std::uint64_t dup = 0, miss = 0;
        std::uint64_t counted = std::min<std::uint64_t>(c->n, MAXN);
        for (std::uint64_t i = 0; i < counted; ++i)
        {
            auto x = c->counters[i].load(std::memory_order_relaxed);
            if (x > 1) ++dup;
            if (x == 0) ++miss;
        }
        char const* sig = c->nvalue ? "V" : c->nerror ? "E" : c->nstopped ? "S" : "none";
        int nsig = c->nvalue + c->nerror + c->nstopped;
        std::printf("OBS POOL %d hang=0 pool=%s type=%s bits=%d W=%" PRIu64 " n=%" PRIx64 " pred=%d throw=%s sig=%s nsig=%d val=%d err=%s calls=%" PRIu64
                    " dup=%" PRIu64 " miss=%" PRIu64 " counted=%" PRIu64 " oob=%" PRIu64 " argbad=%" PRIu64 " late=%" PRIu64
                    " snap_in=%" PRIu64 " snap_out=%" PRIu64 " exited=%" PRIu64 " sum=%" PRIx64 " throws=%" PRIu64
                    " h1101=%d sv_pool=%" PRId64 " sv_local=%" PRId64 " sv_global=%" PRId64 " offpool=%" PRIu64 " secs=%.4f\n",
            id, on_bulk ? "bulk" : "default", tnames[ty], tbits[ty], W, c->n, pred, spec.c_str(), sig, nsig, c->val_ok.load(), c->err.c_str(),
            calls, dup, miss, counted, c->total(&Acc::oob), c->total(&Acc::argbad), c->total(&Acc::late), c->snap_in, c->snap_out,
            c->total(&Acc::exited), c->total(&Acc::sum), c->total(&Acc::throws), c->h1101.load(), (std::int64_t) c->sv_pool.load(),
            (std::int64_t) c->sv_local.load(), (std::int64_t) c->sv_global.load(), c->total(&Acc::offpool), secs);
        std::fflush(stdout);
        retain([c] { delete c; });
    }
    pika::verif::hook.store(nullptr);
    std::printf("END %d\n", ncases);
    std::fflush(stdout);
    pika::finalize();
    return pika::stop();
}
