// harness/c01_stacks.cpp — C01 "every task runs to completion ... while task objects and stacks are
// recycled", "mixed priorities and stack sizes": tasks of all four stack-size classes whose bodies
// really USE a large fraction of the configured stack, created in WAVES so that the terminated
// thread objects of one class have been recycled into the per-class heaps before tasks of another
// class are created.
//
// usage: c01_stacks <seed> <policy> <threads> <nwaves> <guard_pages 0|1> [perturb 0..2]
//
// One process = one sequence of waves on one runtime (the plug-in runs every sequence in its own
// child process: a stack overrun — SIGSEGV on the guard page, or a crash after neighbouring memory
// was overwritten — ends the child, and the last `WAVE` line it flushed names the wave).
// A wave: n tasks of ONE class (small / medium / large / huge), mixed priorities, submitted through
// thread_init_data::stacksize (register_work) or through the scheduler property
// `with_stacksize(thread_pool_scheduler, cls)`.  A body
//   * compares the size of the stack it runs on (get_self_stacksize) with the configured size of
//     the class it was created with                               (MON stack_class_mismatch),
//   * recurses with 1 KiB frames (smaller than a page: a guard page cannot be jumped over) until
//     `frac` (50..80 %) of the CONFIGURED size of its class lies between the first frame and the
//     current one, writing a per-task / per-depth pattern into every cache line of every frame,
//   * optionally yields at the bottom (other tasks run on their stacks, the task may migrate),
//   * verifies every frame's pattern on the way back             (MON stack_canary),
// and is bracketed by the entered-once / finished-once ledger of common/c01_sched.hpp; the
// quiescence watchdog of Runner::wait_done turns a lost task into a hit.  Between two waves the
// harness waits until the pool's thread map is empty (every terminated object of the wave has gone
// through cleanup_terminated -> recycle_thread into a heap) — by the idle workers, or, for waves of
// more than 100 terminated objects per queue, already by the count-triggered clean-up.
// The state-word chains of all tasks are printed for the acceptor like in c01_trace.cpp.
#include "common/c01_sched.hpp"

#include <pika/execution.hpp>
#include <pika/runtime/runtime.hpp>

using namespace vt;
namespace pex = pika::execution::experimental;

struct BurnCtx
{
    char* top;
    std::size_t target;
    std::uint32_t key;
    bool yield_at_bottom;
    int maxdepth = 0;
    long bad = 0;
};

constexpr std::size_t FRAME = 1024;

__attribute__((noinline)) static int burn(BurnCtx& cx, int depth)
{
    volatile unsigned char buf[FRAME];
    unsigned char const pat = static_cast<unsigned char>(cx.key * 131u + std::uint32_t(depth) * 31u + 7u);
    for (std::size_t i = 0; i < FRAME; i += 64) buf[i] = static_cast<unsigned char>(pat ^ (i >> 6));
    buf[FRAME - 1] = pat;
    std::size_t used = std::size_t(cx.top - reinterpret_cast<char*>(const_cast<unsigned char*>(&buf[0])));
    int r = 0;
    if (used < cx.target) r = burn(cx, depth + 1);
    else
    {
        cx.maxdepth = depth;
        if (cx.yield_at_bottom) yield_now();
    }
    for (std::size_t i = 0; i < FRAME; i += 64)
        if (buf[i] != static_cast<unsigned char>(pat ^ (i >> 6))) ++cx.bad;
    if (buf[FRAME - 1] != pat) ++cx.bad;
    return r + buf[64];
}

static ex::thread_stacksize cls_of(int k)
{
    switch (k)
    {
    case 0: return ex::thread_stacksize::small_;
    case 1: return ex::thread_stacksize::medium;
    case 2: return ex::thread_stacksize::large;
    default: return ex::thread_stacksize::huge;
    }
}
static char const* cls_name(int k)
{
    static char const* n[] = {"small", "medium", "large", "huge"};
    return n[k & 3];
}

struct WaveStat
{
    std::atomic<long> mismatch{0}, canary{0}, frames{0};
    std::atomic<long> first_mismatch_got{0};
    std::atomic<int> sink{0};
};

static void body(std::shared_ptr<Case> c, std::shared_ptr<WaveStat> ws, int i, std::ptrdiff_t cfg_size, int frac_pct, bool yb,
    std::uint32_t key)
{
    Begin b(c.get(), i);
    char here;
    std::ptrdiff_t have = get_self_stacksize();
    if (have != cfg_size)
    {
        if (ws->mismatch.fetch_add(1) == 0) ws->first_mismatch_got.store(long(have));
    }
    BurnCtx cx{&here, std::size_t(cfg_size) / 100 * std::size_t(frac_pct), key, yb};
    b.seg_out();    // the body may yield at the bottom
    int r = burn(cx, 0);
    b.seg_in();
    ws->sink.fetch_add(r & 1);
    ws->frames.fetch_add(cx.maxdepth + 1);
    if (cx.bad) ws->canary.fetch_add(cx.bad);
}

static bool settle(Runner& R, double limit)
{
    auto t0 = std::chrono::steady_clock::now();
    for (;;)
    {
        if (R.pool()->get_thread_count_unknown(std::size_t(-1), false) == 0) return true;
        std::this_thread::sleep_for(std::chrono::microseconds(200));
        if (std::chrono::duration<double>(std::chrono::steady_clock::now() - t0).count() > limit) return false;
    }
}

int main(int argc, char** argv)
{
    std::uint64_t seed = argc > 1 ? std::strtoull(argv[1], nullptr, 10) : 1;
    std::string policy = argc > 2 ? argv[2] : "local-priority-fifo";
    int threads = argc > 3 ? std::atoi(argv[3]) : 2;
    int nwaves = argc > 4 ? std::atoi(argv[4]) : 8;
    int guard = argc > 5 ? std::atoi(argv[5]) : 1;
    g_perturb = argc > 6 ? std::atoi(argv[6]) : 1;
    g_seed = seed;
    setvbuf(stdout, nullptr, _IOLBF, 0);

    std::string a1 = "--pika:threads=" + std::to_string(threads);
    std::string a2 = "--pika:scheduler=" + policy;
    std::string a3 = std::string("--pika:ini=pika.stacks.use_guard_pages=") + (guard ? "1" : "0");
    char* av[] = {argv[0], a1.data(), a2.data(), a3.data(), nullptr};
    pika::verif::hook.store(&vt::hookfn, std::memory_order_release);
    pika::start(4, av);

    Runner R;
    R.threads = threads;
    R.policy = policy;
    R.seed = seed;
    Rng g(seed * 2654435761ull + std::hash<std::string>{}(policy) % 1000 + std::uint64_t(threads) * 29 + std::uint64_t(guard));
    std::ptrdiff_t cfg[4];
    for (int k = 0; k < 4; ++k) cfg[k] = pika::detail::get_runtime().get_config().get_stack_size(cls_of(k));
    std::printf("INFO 0 start mode=stacks policy=%s threads=%d seed=%llu guard_pages=%d sizes=%td,%td,%td,%td\n", policy.c_str(), threads,
        (unsigned long long) seed, guard, cfg[0], cfg[1], cfg[2], cfg[3]);
    {
        settle(R, 2.0);
        std::vector<Rec> tmp;
        drain(tmp);
    }
    // order of classes: a closed walk through all 12 ordered pairs of distinct classes (an Euler
    // circuit of the complete digraph on 4 vertices), started at a seeded offset, under a seeded
    // relabelling: 13 consecutive waves see every "class A recycled, then class B created"
    std::vector<int> order;
    {
        static int const circuit[12] = {0, 1, 2, 3, 0, 2, 1, 3, 2, 0, 3, 1};
        int perm[4] = {0, 1, 2, 3};
        for (int i = 3; i > 0; --i) std::swap(perm[i], perm[g.below(i + 1)]);
        int off = g.below(12);
        for (int w = 0; w < nwaves; ++w) order.push_back(perm[circuit[(off + w) % 12]]);
    }
    int rc = 0;
    for (int w = 0; w < nwaves && rc == 0; ++w)
    {
        int k = order[std::size_t(w)];
        int n;
        switch (k)
        {
        case 0:
        case 1:
        {
            // sometimes more than 100 terminated objects per queue (count-triggered clean-up)
            int pick = g.below(4);
            n = pick == 0 ? 110 * threads + g.below(40) : (pick == 1 ? 30 + g.below(30) : 4 + g.below(12));
            break;
        }
        case 2: n = g.chance(1, 3) ? 16 + g.below(16) : 3 + g.below(8); break;
        default: n = 1 + g.below(3); break;
        }
        int frac_lo = 50, frac_hi = (k <= 1) ? 75 : 80;
        bool via_sched = g.chance(1, 2);
        bool yb = g.chance(1, 2);
        std::uint64_t ws_seed = g.next();
        auto c = std::make_shared<Case>();
        c->id = w + 1;
        c->kind = std::string("stack_") + cls_name(k);
        c->init(n);
        auto ws = std::make_shared<WaveStat>();
        std::printf("WAVE %d class=%s size=%td n=%d frac=%d..%d%% submit=%s yield_at_bottom=%d prev=%s\n", c->id, cls_name(k), cfg[k], n,
            frac_lo, frac_hi, via_sched ? "with_stacksize" : "register_work", int(yb), w ? cls_name(order[std::size_t(w - 1)]) : "-");
        std::fflush(stdout);
        auto tc0 = std::chrono::steady_clock::now();
        Rng wg(ws_seed);
        for (int i = 0; i < n; ++i)
        {
            int frac = frac_lo + wg.below(frac_hi - frac_lo + 1);
            int prio = wg.below(4);
            std::uint32_t key = std::uint32_t(wg.next());
            bool ybi = yb && wg.chance(2, 3);
            std::ptrdiff_t cs = cfg[k];
            if (via_sched)
            {
                auto sched = pex::with_priority(pex::with_stacksize(pex::thread_pool_scheduler{}, cls_of(k)), prio_of(prio));
                pex::start_detached(pex::schedule(sched) | pex::then([c, ws, i, cs, frac, ybi, key] { body(c, ws, i, cs, frac, ybi, key); }));
            }
            else
            {
                thread_init_data data(make_thread_function_nullary([c, ws, i, cs, frac, ybi, key] { body(c, ws, i, cs, frac, ybi, key); }),
                    "verif-stack-task", prio_of(prio), ex::thread_schedule_hint(), cls_of(k));
                register_work(data);
            }
        }
        bool ok = R.wait_done(*c, n);
        if (!ok)
        {
            std::printf("SUMMARY mode=stacks policy=%s threads=%d cases=%d tasks=%ld events=%ld chains=%ld monhits=%d rc=1\n", policy.c_str(),
                threads, c->id, R.total_tasks, R.total_events, R.total_chains, R.mon_hits + (R.inconclusive ? 0 : 1));
            std::fflush(stdout);
            _exit(R.inconclusive ? 4 : 3);
        }
        double t_run = std::chrono::duration<double>(std::chrono::steady_clock::now() - tc0).count();
        bool recycled = settle(R, 5.0);    // thread map empty: all terminated objects of the wave are in the heaps
        if (ws->mismatch.load())
        {
            ++R.mon_hits;
            std::printf("MON %d stack_class_mismatch kind=%s %ld of %d tasks created with stack class %s (configured %td bytes) ran on a stack of "
                        "another size (first: %ld bytes); previous wave: %s\n",
                c->id, c->kind.c_str(), ws->mismatch.load(), n, cls_name(k), cfg[k], ws->first_mismatch_got.load(),
                w ? cls_name(order[std::size_t(w - 1)]) : "-");
        }
        if (ws->canary.load())
        {
            ++R.mon_hits;
            std::printf("MON %d stack_canary kind=%s %ld pattern bytes written into the frames of tasks of class %s were changed while the "
                        "task was alive (another task's stack overlaps)\n",
                c->id, c->kind.c_str(), ws->canary.load(), cls_name(k));
        }
        R.analyse(*c, true);
        std::printf("TIME %d run=%.3f frames=%ld recycled=%d\n", c->id, t_run, ws->frames.load(), int(recycled));
    }
    std::printf("SUMMARY mode=stacks policy=%s threads=%d cases=%d tasks=%ld events=%ld chains=%ld monhits=%d rc=%d\n", policy.c_str(), threads,
        nwaves, R.total_tasks, R.total_events, R.total_chains, R.mon_hits, rc);
    std::fflush(stdout);
    pika::finalize();
    pika::stop();
    return 0;
}
