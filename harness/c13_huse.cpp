// C13 harness, scenario "the handle is used by a third party while a join is in progress".
//
// Property text: join() "does return however the target's termination and the join/interrupt calls are
// interleaved".  A pika::thread object protects id_ with an internal spinlock (mtx_); join() must not keep
// that lock while it waits: every other member that takes mtx_ (joinable, get_id, native_handle, interrupt,
// interruption_requested, detach, swap, move) may be called by ANOTHER task or OS thread while a joiner is
// suspended inside join(), and if the target can only finish because of such a call (interrupt of a blocked
// target) nothing would ever return.
//
// One case: a target T blocks for ever (semaphore acquire / cv wait / pika::mutex lock of a held mutex /
// flag poll with interruption points); a joiner task J calls t.join() and is accepted as exit callback
// (hook 1302 "callback accepted, about to suspend"); a third party O — a pika task or a plain OS thread —
// starts either when J has been SEEN suspended, or right at J's hook 1302 (J is held there for a seeded
// time, "about to suspend"), and calls the observers on the SAME handle in a seeded order, optionally
// swap (there and back), move (out and back), detach, and finally interrupt() (through the handle, or
// through the saved id after a detach).  Monitors (no timing except the generous watchdog bounds):
//   * every call returns (15 s without progress of O -> stuck at that member),
//   * the observers see the sequential spec of a handle that is being joined: joinable() == true,
//     get_id() / native_handle() == the id taken before the join, interruption_requested() == false,
//   * the interrupt ends the blocked target with thread_interrupted (20 s),
//   * J's join returns after that (20 s), the handle is not joinable afterwards.
// A case that got stuck cannot be cleaned up (J never returns): the harness prints the case and exits.
//
// usage: c13_huse <workers> <seed> <n> [only-index]
//   IN HUSE <id> workers= tb= who= when= ops=<m>,<m>,...
//   OUT HUSE <id> returned=<k>/<n> stuck=<member|-> wrong=<member|-> target=<1|0|2> join=<1|0> joinable_after=<0|1>
//   STAT HUSE <id> jsusp= maxcall_us= hold_us=
#include <pika/condition_variable.hpp>
#include <pika/execution.hpp>
#include <pika/init.hpp>
#include <pika/mutex.hpp>
#include <pika/semaphore.hpp>
#include <pika/thread.hpp>

#include <atomic>
#include <chrono>
#include <cstdint>
#include <cstdio>
#include <cstdlib>
#include <memory>
#include <mutex>
#include <string>
#include <thread>
#include <unistd.h>
#include <utility>
#include <vector>

using namespace std::chrono_literals;
using clk = std::chrono::steady_clock;
namespace ex = pika::execution::experimental;
namespace tt = pika::this_thread::experimental;
namespace td = pika::threads::detail;

struct Rng
{
    std::uint64_t x;
    explicit Rng(std::uint64_t seed) : x(seed * 0x9E3779B97F4A7C15ull + 0x13579bdfull) {}
    std::uint64_t next()
    {
        std::uint64_t z = (x += 0x9E3779B97F4A7C15ull);
        z = (z ^ (z >> 30)) * 0xBF58476D1CE4E5B9ull;
        z = (z ^ (z >> 27)) * 0x94D049BB133111EBull;
        return z ^ (z >> 31);
    }
    std::uint64_t below(std::uint64_t n) { return n ? next() % n : 0; }
    bool chance(unsigned num, unsigned den) { return below(den) < num; }
};
static std::uint64_t mix_seed(std::uint64_t z)
{
    z = (z ^ (z >> 30)) * 0xBF58476D1CE4E5B9ull + 0x632BE59BD9B4E019ull;
    z = (z ^ (z >> 27)) * 0x94D049BB133111EBull;
    return z ^ (z >> 31);
}
static void spin_us(int us)
{
    if (us <= 0) return;
    auto t0 = clk::now();
    while (clk::now() - t0 < std::chrono::microseconds(us)) {}
}
static void ysusp() { pika::this_thread::suspend(td::thread_schedule_state::pending, "c13_huse"); }

static constexpr int CALL_BOUND_S = 15;    // a member call that takes a free spinlock needs microseconds
static constexpr int END_BOUND_S = 20;

static std::atomic<long> g_beat{0};
static std::atomic<int> g_case{-1};
static std::atomic<int> g_call_member{-1};          // member call in progress (for the OS-thread backstop)
static std::atomic<long long> g_call_start_ns{0};
static std::atomic<bool> g_done{false};
static int g_workers = 4, g_n = 100, g_only = -1;
static std::uint64_t g_seed = 1;

// hook 1302 (obj = the joiner's thread id, a = 1: callback accepted, about to suspend)
static std::atomic<void const*> g_J{nullptr};
static std::atomic<bool> g_at1302{false};
static std::atomic<int> g_hold_us{0};
static void hookfn(int site, void const* obj, std::uint64_t a, std::uint64_t)
{
    if (site != 1302 || a != 1) return;
    void const* j = g_J.load();
    if (j == nullptr || obj != j) return;
    g_at1302 = true;
    spin_us(g_hold_us.load());
}

enum Member { M_JOINABLE, M_GET_ID, M_NATIVE, M_INTR_REQ, M_SWAP, M_MOVE, M_DETACH, M_INTERRUPT };
static char const* mname(int m)
{
    static char const* n[] = {"joinable", "get_id", "native_handle", "interruption_requested", "swap", "move", "detach", "interrupt"};
    return n[m];
}

template <typename F>
static bool wait_s(F&& f, int seconds, bool pika_task)
{
    auto t0 = clk::now();
    while (!f())
    {
        if (clk::now() - t0 > std::chrono::seconds(seconds)) return false;
        if (pika_task) pika::this_thread::yield(); else std::this_thread::sleep_for(50us);
    }
    return true;
}

struct Case
{
    // target
    std::atomic<bool> t_started{false}, t_fin{false};
    std::atomic<int> t_how{0};    // 1 thread_interrupted, 2 another exception, 3 returned normally
    std::atomic<bool> stop_poll{false}, holder_has{false};
    pika::counting_semaphore<> sem{0}, holder_release{0};
    pika::mutex m, held;
    pika::condition_variable_any cv;
    // joiner
    std::atomic<bool> j_started{false}, j_ret{false};
    std::atomic<int> j_exc{0}, joinable_after{-1};
    // third party
    std::vector<int> ops;
    std::atomic<int> cur{-1}, ndone{0};
    std::atomic<long long> last_progress_ns{0};
    std::atomic<int> wrong{-1};
    std::atomic<long long> maxcall_ns{0};
    std::atomic<bool> o_fin{false}, o_exc{false};
};

static long long now_ns() { return std::chrono::duration_cast<std::chrono::nanoseconds>(clk::now().time_since_epoch()).count(); }

static void third_party(std::shared_ptr<Case> c, pika::thread* t, pika::thread::id id0, td::thread_id_type nh0)
{
    bool detached = false;
    for (std::size_t i = 0; i < c->ops.size(); ++i)
    {
        int m = c->ops[i];
        c->cur = (int) i;
        long long t0 = now_ns();
        c->last_progress_ns = t0;
        g_call_start_ns = t0;
        g_call_member = m;
        bool ok = true;
        try
        {
            switch (m)
            {
            case M_JOINABLE: ok = (t->joinable() == !detached); break;
            case M_GET_ID: ok = detached ? (t->get_id() == pika::thread::id()) : (t->get_id() == id0); break;
            case M_NATIVE: ok = detached ? (t->native_handle() == td::invalid_thread_id) : (t->native_handle() == nh0); break;
            case M_INTR_REQ: if (!detached) ok = (t->interruption_requested() == false); break;
            case M_SWAP:
            {
                pika::thread e;
                t->swap(e);
                ok = e.joinable() == !detached && !t->joinable();
                e.swap(*t);
                ok = ok && !e.joinable();
                break;
            }
            case M_MOVE:
            {
                pika::thread e(std::move(*t));
                ok = e.joinable() == !detached && !t->joinable();
                *t = std::move(e);
                ok = ok && !e.joinable();
                break;
            }
            case M_DETACH: t->detach(); detached = true; ok = !t->joinable(); break;
            case M_INTERRUPT:
                if (detached) pika::thread::interrupt(id0); else t->interrupt();
                break;
            }
        }
        catch (...) { c->o_exc = true; ok = false; }
        g_call_member = -1;
        long long dt = now_ns() - t0;
        if (dt > c->maxcall_ns.load()) c->maxcall_ns = dt;
        if (!ok && c->wrong.load() < 0) c->wrong = (int) i;
        c->ndone = (int) i + 1;
        c->last_progress_ns = now_ns();
        g_beat++;
    }
    c->o_fin = true;
}

static void all_cases()
{
    for (int cs = 0; cs < g_n; ++cs)
    {
        Rng rng(g_seed + 0x1000003ull * (std::uint64_t) cs + (std::uint64_t) g_workers);
        int tb = (int) rng.below(4);                 // how the target blocks
        bool who_os = rng.chance(1, 2);              // third party: plain OS thread / pika task
        bool when_susp = rng.chance(2, 3);           // start when J was seen suspended / right at J's 1302
        int hold = when_susp ? 0 : (int) rng.below(400);
        auto c = std::make_shared<Case>();
        {
            std::vector<int> obs = {M_JOINABLE, M_GET_ID, M_NATIVE, M_INTR_REQ};
            for (int i = 3; i > 0; --i) std::swap(obs[i], obs[rng.below(i + 1)]);
            if (rng.chance(1, 3)) obs.insert(obs.begin() + rng.below(obs.size() + 1), M_SWAP);
            if (rng.chance(1, 3)) obs.insert(obs.begin() + rng.below(obs.size() + 1), M_MOVE);
            if (rng.chance(1, 3)) obs.push_back((int) rng.below(4));    // one observer a second time
            if (rng.chance(1, 4))
            {
                obs.push_back(M_DETACH);
                if (rng.chance(1, 2)) obs.push_back(M_JOINABLE);
            }
            obs.push_back(M_INTERRUPT);
            c->ops = obs;
        }
        if (g_only >= 0 && cs != g_only) continue;
        g_case = cs;
        g_beat++;
        std::string ops;
        for (int m : c->ops) { if (!ops.empty()) ops += ','; ops += mname(m); }
        std::printf("IN HUSE %d workers=%d tb=%s who=%s when=%s ops=%s\n", cs, g_workers,
            tb == 0 ? "semaphore" : tb == 1 ? "cv" : tb == 2 ? "mutex" : "poll", who_os ? "os_thread" : "task",
            when_susp ? "suspended" : "about_to_suspend", ops.c_str());
        std::fflush(stdout);

        g_J = nullptr;
        g_at1302 = false;
        g_hold_us = hold;
        // holder of the mutex the target will block on (a pika::mutex has to be unlocked by its owner)
        pika::thread holder;
        if (tb == 2)
        {
            holder = pika::thread([c] {
                std::unique_lock<pika::mutex> lk(c->held);
                c->holder_has = true;
                c->holder_release.acquire();    // blocks (a yield loop here would starve a target woken from an OS thread on 1 worker)
            });
            while (!c->holder_has.load()) pika::this_thread::yield();
        }
        pika::thread t([c, tb] {
            try
            {
                c->t_started = true;
                if (tb == 0) c->sem.acquire();
                else if (tb == 1)
                {
                    std::unique_lock<pika::mutex> lk(c->m);
                    c->cv.wait(lk, [&] { return c->stop_poll.load(); });
                }
                else if (tb == 2) { std::unique_lock<pika::mutex> lk(c->held); }
                else
                {
                    while (!c->stop_poll.load()) { pika::this_thread::interruption_point(); ysusp(); }
                }
                c->t_how = 3;
            }
            catch (pika::thread_interrupted const&) { c->t_how = 1; }
            catch (...) { c->t_how = 2; }
            c->t_fin = true;
        });
        pika::thread::id id0 = t.get_id();
        td::thread_id_type nh0 = t.native_handle();
        // the target is blocked (state word suspended) before anything else happens; the polling target never is
        while (!c->t_started.load()) pika::this_thread::yield();
        if (tb != 3)
            wait_s([&] { return td::get_thread_id_data(nh0)->get_state().state() == td::thread_schedule_state::suspended; }, 5, true);

        pika::thread* tp = &t;
        pika::thread j([c, tp] {
            g_J = td::get_self_id().get();
            c->j_started = true;
            try { tp->join(); }
            catch (pika::thread_interrupted const&) { c->j_exc = 1; throw; }
            catch (...) { c->j_exc = 2; }
            c->joinable_after = tp->joinable() ? 1 : 0;
            c->j_ret = true;
        });
        td::thread_id_type jid = j.native_handle();
        // J inside join(), callback accepted
        bool at = wait_s([&] { return g_at1302.load(); }, 10, true);
        int jsusp = 0;
        if (at && when_susp)
            jsusp = wait_s([&] { return td::get_thread_id_data(jid)->get_state().state() == td::thread_schedule_state::suspended; }, 5, true) ? 1 : 0;

        c->last_progress_ns = now_ns();
        pika::thread otask;
        std::thread othread;
        if (who_os) othread = std::thread([c, tp, id0, nh0] { third_party(c, tp, id0, nh0); });
        else otask = pika::thread([c, tp, id0, nh0] { third_party(c, tp, id0, nh0); });

        // every call returns
        bool calls_ok = true;
        while (!c->o_fin.load())
        {
            if (now_ns() - c->last_progress_ns.load() > (long long) CALL_BOUND_S * 1000000000ll) { calls_ok = false; break; }
            pika::this_thread::yield();
        }
        bool t_ended = false, j_back = false;
        if (calls_ok)
        {
            t_ended = wait_s([&] { return c->t_fin.load(); }, END_BOUND_S, true);
            if (t_ended) j_back = wait_s([&] { return c->j_ret.load() || c->j_exc.load() != 0; }, END_BOUND_S, true);
        }
        int n = (int) c->ops.size(), k = c->ndone.load(), w = c->wrong.load();
        auto out = [&](int joinable_after) {
            std::printf("OUT HUSE %d returned=%d/%d stuck=%s wrong=%s target=%d join=%d joinable_after=%d\n", cs, k, n,
                calls_ok ? "-" : mname(c->ops[c->cur.load() < 0 ? 0 : c->cur.load()]), w < 0 ? "-" : mname(c->ops[w]),
                t_ended ? c->t_how.load() : 0, (int) (j_back && c->j_ret.load()), joinable_after);
            std::printf("STAT HUSE %d at1302=%d jsusp=%d maxcall_us=%lld hold_us=%d o_exc=%d j_exc=%d\n", cs, (int) at, jsusp,
                c->maxcall_ns.load() / 1000, hold, (int) c->o_exc.load(), c->j_exc.load());
            std::fflush(stdout);
        };
        if (!calls_ok || !t_ended || !j_back)
        {
            out(-1);
            std::printf("NOTE HUSE stopped: case %d cannot be cleaned up\n", cs);
            std::fflush(stdout);
            _exit(0);
        }
        if (who_os) othread.join(); else otask.join();
        j.join();
        int ja = c->joinable_after.load();
        if (t.joinable()) { ja = 1; t.join(); }
        if (tb == 2) { c->holder_release.release(); holder.join(); }
        out(ja);
    }
}

int main(int argc, char** argv)
{
    g_workers = argc > 1 ? std::atoi(argv[1]) : 4;
    g_seed = mix_seed(argc > 2 ? std::strtoull(argv[2], nullptr, 10) : 1);
    g_n = argc > 3 ? std::atoi(argv[3]) : 100;
    g_only = argc > 4 ? std::atoi(argv[4]) : -1;
    // backstop on an OS thread: (a) a member call in progress for CALL_BOUND_S + 3 s while the monitoring task did not
    // report it (a task spinning on the handle's spinlock does not yield: with one worker the monitor never runs);
    // (b) no case starts or ends for 90 s
    std::thread([] {
        long last = -1;
        int idle = 0;
        while (!g_done)
        {
            for (int i = 0; i < 10 && !g_done; ++i)
            {
                std::this_thread::sleep_for(100ms);
                int m = g_call_member.load();
                long long t0 = g_call_start_ns.load();
                if (m >= 0 && now_ns() - t0 > (long long) (CALL_BOUND_S + 3) * 1000000000ll && g_call_member.load() == m &&
                    g_call_start_ns.load() == t0)
                {
                    std::printf("OUT HUSE %d returned=?/? stuck=%s wrong=- target=0 join=0 joinable_after=-1 monitor_task_starved=1\n",
                        g_case.load(), mname(m));
                    std::printf("NOTE HUSE stopped: case %d cannot be cleaned up\n", g_case.load());
                    std::fflush(stdout);
                    _exit(0);
                }
            }
            long b = g_beat.load();
            if (b == last) ++idle; else idle = 0;
            last = b;
            if (idle >= 90) { std::printf("OUT HUSE %d hang=1\n", g_case.load()); std::fflush(stdout); _exit(0); }
        }
    }).detach();
    pika::verif::hook.store(&hookfn, std::memory_order_release);
    std::string wa = "--pika:threads=" + std::to_string(g_workers);
    char* av[] = {argv[0], wa.data(), nullptr};
    int ac = 2;
    pika::start(ac, av);
    ex::thread_pool_scheduler sched{};
    tt::sync_wait(ex::schedule(sched) | ex::then([&] { all_cases(); }));
    pika::finalize();
    int rc = pika::stop();
    g_done = true;
    std::printf("END HUSE rc=%d\n", rc);
    std::fflush(stdout);
    return 0;
}
