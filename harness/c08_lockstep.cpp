// C08 LOCKSTEP harness: the real pika::counting_semaphore<> / pika::sliding_semaphore on plain
// std::threads (default_agent), interleavings chosen by the controller at the critical-section
// entry points (801-804, 808, 811-813), the signal-loop re-lock (805/815), the cv wake-up (806)
// and default_agent::suspend (9001).  For each case: an IN line (input + executed schedule: what
// the extracted model replays) and an OUT line (what the implementation did: site per step,
// return values per thread, threads still blocked at the end, final count / lower limit).
#include "common/ctl.hpp"

#include <pika/synchronization/counting_semaphore.hpp>
#include <pika/synchronization/sliding_semaphore.hpp>

#include <atomic>
#include <chrono>
#include <cinttypes>
#include <sstream>
#include <string>
#include <thread>
#include <vector>

struct Sem : pika::counting_semaphore<>
{
    using pika::counting_semaphore<>::counting_semaphore;
    // detail wait(l, n) / try_wait(l, n) with n != 1 have no public wrapper
    void acquire_n(std::ptrdiff_t n)
    {
        PIKA_VERIF_POINT(808, this);
        std::unique_lock<mutex_type> l(mtx_);
        sem_.wait(l, n);
    }
    bool try_wait_n(std::ptrdiff_t n)
    {
        PIKA_VERIF_POINT(808, this);
        std::unique_lock<mutex_type> l(mtx_);
        return sem_.try_wait(l, n);
    }
};

struct Op
{
    char k;    // A acquire(n) Y try_acquire W try_wait(n) R release(n) S sl.wait(u) T sl.try_wait(u) G sl.signal(x)
               // Z sl.signal_all() (printed Z0, result printed as [value]) M sl.set_max_difference(n, lo) (printed M<n>:<lo>)
    int n;
    int lo = 0;
};

// watchdog: the controlling thread itself calls into the semaphore (final-count probe, clean-up);
// if the real code blocks it forever, the case is reported and the process ends
static std::atomic<std::uint64_t> g_beat{0};
static std::atomic<int> g_case{-1};
static std::atomic<bool> g_finished{false};

static int abs_site(int site)
{
    switch (site)
    {
    case 9001: return 2;
    case 806: return 3;
    case 805:
    case 815: return 5;
    default: return 1;
    }
}

int main(int argc, char** argv)
{
    std::uint64_t seed = argc > 1 ? std::strtoull(argv[1], nullptr, 10) : 1;
    int ncases = argc > 2 ? std::atoi(argv[2]) : 100;
    // scramble the seed: vctl::Rng(seed) and vctl::Rng(seed + 1) are the same stream shifted by one draw
    std::uint64_t sx = (seed ^ 0x5DEECE66Dull) * 0xD6E8FEB86659FD93ull;
    sx ^= sx >> 32;
    vctl::Rng rng(sx * 0xD6E8FEB86659FD93ull);
    std::thread([seed] {
        std::uint64_t last = ~0ull;
        auto t0 = std::chrono::steady_clock::now();
        while (!g_finished.load())
        {
            std::uint64_t b = g_beat.load();
            if (b != last) { last = b; t0 = std::chrono::steady_clock::now(); }
            if (std::chrono::steady_clock::now() - t0 > std::chrono::seconds(30))
            {
                std::printf("HIT lockstep:hang case=%d seed=%" PRIu64 " the controlling thread made no progress for 30 s (blocked inside the semaphore while probing the final state or freeing blocked threads)\n",
                    g_case.load(), seed);
                std::fflush(stdout);
                std::_Exit(0);
            }
            std::this_thread::sleep_for(std::chrono::milliseconds(50));
        }
    }).detach();
    for (int cs = 0; cs < ncases; ++cs)
    {
        g_case = cs;
        g_beat++;
        bool sliding = rng.chance(1, 4);
        int T = 1 + (int) rng.below(5);
        int v0 = (int) rng.below(3), lo0 = (int) rng.below(3), md = (int) rng.below(4);
        bool mixed = rng.chance(1, 5);    // detail-level counts != 1
        int flavour = (int) rng.below(4);
        bool with_m = rng.chance(1, 2);    // sliding: programs with signal_all / set_max_difference
        std::vector<std::vector<Op>> progs(T);
        for (int t = 0; t < T; ++t)
        {
            int n = 1 + (int) rng.below(4);
            for (int i = 0; i < n; ++i)
            {
                Op o{};
                if (sliding)
                {
                    int r = (int) rng.below(with_m ? 12 : 10);
                    o.k = r < 5 ? 'S' : r < 7 ? 'T' : r < 9 ? 'G' : r < 10 ? (with_m ? 'Z' : 'G') : r < 11 ? 'Z' : 'M';
                    o.n = (int) rng.below(9);
                    if (o.k == 'Z') o.n = 0;
                    if (o.k == 'M')
                    {
                        o.n = (int) rng.below(8);     // new max_difference
                        o.lo = (int) rng.below(6);    // new lower limit (may be below the current one)
                    }
                }
                else
                {
                    int r = (int) rng.below(100);
                    // flavours: balanced / acquire-heavy (blocked states) / release-heavy with multi-permit
                    // releases (signal loop) / try-heavy (stealing between wake-up and re-check)
                    int pa = flavour == 1 ? 55 : flavour == 3 ? 30 : 38, py = flavour == 3 ? 30 : 15;
                    if (r < pa)
                    {
                        o.k = 'A';
                        o.n = (mixed && rng.chance(1, 3)) ? 2 : 1;
                    }
                    else if (r < pa + py) { o.k = 'Y'; o.n = 1; }
                    else if (r < pa + py + 7)
                    {
                        o.k = 'W';
                        o.n = 1 + (int) rng.below(2);
                    }
                    else
                    {
                        o.k = 'R';
                        o.n = flavour == 2 ? 1 + (int) rng.below(3) : (rng.chance(1, 3) ? 2 : 1);
                    }
                }
                progs[t].push_back(o);
            }
        }
        Sem sem(v0);
        pika::sliding_semaphore sl(md, lo0);
        std::atomic<bool> stop{false};
        std::atomic<int> cur_md{md};    // max_difference in force (last set_max_difference issued)
        std::vector<std::string> got(T);
        std::vector<std::atomic<int>> ndone(T);
        for (auto& x : ndone) x = 0;
        {
            vctl::Controller ctl(T, 801, 816);
            std::vector<std::thread> th;
            for (int t = 0; t < T; ++t)
                th.emplace_back([&, t] {
                    ctl.begin(t);
                    for (Op const& o : progs[t])
                    {
                        if (stop.load()) break;
                        bool r = true, zres = false;
                        switch (o.k)
                        {
                        case 'A': if (o.n == 1) sem.acquire(); else sem.acquire_n(o.n); break;
                        case 'Y': r = sem.try_acquire(); break;
                        case 'W': r = sem.try_wait_n(o.n); break;
                        case 'R': sem.release(o.n); break;
                        case 'S': sl.wait(o.n); break;
                        case 'T': r = sl.try_wait(o.n); break;
                        case 'G': sl.signal(o.n); break;
                        case 'Z':
                        {
                            // the public wrapper has no hook (one-line function): harness-side site, as for 808 above
                            PIKA_VERIF_POINT(808, &sl);
                            std::int64_t v = sl.signal_all();
                            if (!stop.load()) got[t] += "[" + std::to_string(v) + "]";
                            zres = true;
                            break;
                        }
                        case 'M':
                            PIKA_VERIF_POINT(808, &sl);
                            cur_md.store(o.n);    // lock-step: nobody else runs until this thread parks, blocks or ends
                            sl.set_max_difference(o.n, o.lo);
                            break;
                        }
                        if (stop.load()) break;    // woken by the clean-up, not by the schedule
                        if (!zres) got[t].push_back(r ? '1' : '0');
                        ndone[t]++;
                    }
                    ctl.end();
                });
            bool hang = false;
            if (!ctl.quiesce(20000)) hang = true;
            ctl.release_all_parked();
            std::vector<int> sched, sites;
            while (!hang)
            {
                if (!ctl.quiesce(20000)) { hang = true; break; }
                auto p = ctl.parked();
                if (p.empty()) break;
                bool resumer = false;
                {
                    std::lock_guard l(ctl.m);
                    for (auto& x : ctl.s)
                        if (x.st == vctl::BLOCKED && x.waiting_on != nullptr) resumer = true;
                }
                if (resumer)
                {
                    // a thread sits inside default_agent::resume holding the semaphore's spinlock:
                    // only its target (parked at 9001) can make progress; anything else would spin
                    std::vector<int> q;
                    for (int x : p)
                        if (ctl.site_of(x) == 9001) q.push_back(x);
                    if (q.empty()) { hang = true; break; }
                    p = q;
                }
                int t = p[rng.below(p.size())];
                if (!sched.empty() && rng.chance(1, 4))
                    for (int x : p)
                        if (x == sched.back()) t = x;
                g_beat++;
                sched.push_back(t);
                sites.push_back(abs_site(ctl.site_of(t)));
                ctl.release(t);
            }
            std::ostringstream in, out;
            in << "IN LS " << cs << " " << (sliding ? "S" : "C") << " " << v0 << " " << lo0 << " " << md << " " << T;
            for (auto& p : progs)
            {
                in << " ";
                for (size_t i = 0; i < p.size(); ++i) {
                    in << (i ? "," : "") << p[i].k << p[i].n;
                    if (p[i].k == 'M') in << ":" << p[i].lo;
                }
            }
            in << " ";
            for (size_t i = 0; i < sched.size(); ++i) in << (i ? "," : "") << sched[i];
            if (sched.empty()) in << "-";
            if (hang)
            {
                std::printf("%s\nHIT lockstep:hang case=%d seed=%" PRIu64 " the real code did not reach a quiescent state within 20 s\n",
                    in.str().c_str(), cs, seed);
                std::fflush(stdout);
                std::_Exit(0);
            }
            auto blocked = ctl.blocked();
            std::vector<std::string> snap = got;
            // the IN line goes out before the controlling thread touches the semaphore itself
            std::printf("%s\n", in.str().c_str());
            std::fflush(stdout);
            g_beat++;
            // final count / lower limit, observed through the public API from the controlling thread
            long fin = 0;
            if (!sliding)
            {
                for (int i = 0; i < 64 && sem.try_acquire(); ++i) ++fin;
            }
            else
            {
                fin = -100;
                for (int u = 40; u >= -10; --u)
                    if (sl.try_wait(u)) { fin = u - cur_md.load(); break; }
            }
            out << "OUT LS " << cs << " sites=";
            for (size_t i = 0; i < sites.size(); ++i) out << (i ? "," : "") << sites[i];
            if (sites.empty()) out << "-";
            out << " res=";
            for (int t = 0; t < T; ++t) out << (t ? "|" : "") << snap[t];
            out << " blocked=";
            for (size_t i = 0; i < blocked.size(); ++i) out << (i ? "," : "") << blocked[i];
            if (blocked.empty()) out << "-";
            out << " final=" << fin;
            std::printf("%s\n", out.str().c_str());
            std::fflush(stdout);
            g_beat++;
            // clean-up: free the threads that are (legitimately) still blocked
            stop = true;
            pika::verif::hook.store(nullptr, std::memory_order_release);
            if (!blocked.empty())
            {
                sem.release(1000);
                sl.signal(100000);
            }
            auto t0 = std::chrono::steady_clock::now();
            for (;;)
            {
                bool all = true;
                {
                    std::lock_guard l(ctl.m);
                    for (auto& x : ctl.s)
                        if (x.st != vctl::DONE) all = false;
                }
                if (all) break;
                if (std::chrono::steady_clock::now() - t0 > std::chrono::seconds(10))
                {
                    std::printf("HIT lockstep:cleanup_hang case=%d seed=%" PRIu64 " blocked threads did not finish after release(1000)/signal(100000)\n", cs, seed);
                    std::fflush(stdout);
                    std::_Exit(0);
                }
                std::this_thread::sleep_for(std::chrono::microseconds(50));
            }
            for (auto& x : th) x.join();
        }
    }
    g_finished = true;
    std::printf("DONE lockstep cases=%d\n", ncases);
    return 0;
}
