// C09 LOCKSTEP harness for pika::latch on plain std::threads (default agent): count_down(n),
// wait(), try_wait(), arrive_and_wait(n) under controller-chosen interleavings of the hooked steps
//   911 counter_ -= n      912 first notify (lock, notified_ = true, notify_one)   913 next notify_one
//   914 wait(): lock, test, enqueue     9001 agent suspend     916 woken, re-lock and re-test
//   915 try_wait load
//   917 arrive_and_wait: the whole critical section (lock, fetch_sub, then enqueue+unlock, or
//       notified_ = true + first notify_one + unlock) — the hook sits BEFORE the lock, so the last
//       arriver's two model steps (AW0, AWN: the lock is held in between) are one scheduled entry
//   918 arrive_and_wait: next notify_one (before re-locking)
// The extracted model (Model/Latch.v) replays the schedule and predicts the site of every step,
// all try_wait results, who returned, and the view of all threads (<op index>.<site parked at> |
// <op index>B blocked in suspend | D) after every macro step (an entry "tf" is the forced suspend
// step of a waiter on which the notifier blocks inside default_agent::resume).  The total of the decrements equals the count, so every
// waiter must return (otherwise MONITOR latch_lockstep:stuck).
#include "common/ctl.hpp"

#include <pika/synchronization/latch.hpp>

#include <algorithm>
#include <atomic>
#include <sstream>
#include <string>
#include <thread>
#include <vector>

// unhooked view of the counter for the monitor (members are protected)
struct latch_view : pika::latch
{
    using pika::latch::latch;
    std::ptrdiff_t count() const { return counter_.load(); }
};

int main(int argc, char** argv)
{
    std::uint64_t seed = argc > 1 ? std::strtoull(argv[1], nullptr, 10) : 1;
    int ncases = argc > 2 ? std::atoi(argv[2]) : 100;
    vctl::Rng rng(seed);
    for (int cs = 0; cs < ncases; ++cs)
    {
        int C = (int) rng.below(5);
        int T = 1 + (int) rng.below(5);
        std::vector<std::string> progs(T);    // per thread: list of ops c<n> | w | t
        std::vector<std::vector<std::pair<char, int>>> ops(T);
        int rest = C;
        // decrements first distributed, then waits / try_waits sprinkled
        while (rest > 0)
        {
            int n = 1 + (int) rng.below(std::min(rest, 3));
            ops[rng.below(T)].push_back({'c', n});
            rest -= n;
        }
        for (int t = 0; t < T; ++t)
        {
            int extra = (int) rng.below(3);
            for (int k = 0; k < extra; ++k)
            {
                char what = rng.chance(1, 2) ? 'w' : (rng.chance(1, 2) ? 't' : 'z');
                std::pair<char, int> op = what == 'z' ? std::pair<char, int>{'c', 0} : std::pair<char, int>{what, 0};
                ops[t].insert(ops[t].begin() + rng.below(ops[t].size() + 1), op);
            }
            if (ops[t].empty()) ops[t].push_back({'t', 0});
            // a thread never waits before its own decrements (it would block forever): move waits to the end
            std::stable_partition(ops[t].begin(), ops[t].end(), [](auto const& o) { return o.first != 'w'; });
            // arrive_and_wait(n) = decrement + wait: only a thread's LAST decrement may become one
            if (rng.chance(2, 5))
                for (int k = (int) ops[t].size() - 1; k >= 0; --k)
                    if (ops[t][k].first == 'c')
                    {
                        ops[t][k].first = 'a';
                        break;
                    }
            std::ostringstream p;
            for (size_t k = 0; k < ops[t].size(); ++k)
            {
                p << (k ? "," : "") << ops[t][k].first;
                if (ops[t][k].first == 'c' || ops[t][k].first == 'a') p << ops[t][k].second;
            }
            progs[t] = p.str();
        }
        latch_view L(C);
        vctl::Controller ctl(T, 911, 918);
        std::vector<int> early(T, 0);
        std::vector<std::atomic<int>> pos(T);
        for (auto& x : pos) x.store(0);
        std::vector<std::string> tries(T);
        std::vector<int> rets(T, 0);
        std::vector<std::thread> th;
        for (int t = 0; t < T; ++t)
            th.emplace_back([&, t] {
                ctl.begin(t);
                for (size_t k = 0; k < ops[t].size(); ++k)
                {
                    auto const& o = ops[t][k];
                    pos[t].store((int) k);
                    if (o.first == 'c')
                        L.count_down(o.second);
                    else if (o.first == 'a')
                    {
                        L.arrive_and_wait(o.second);
                        if (L.count() > 0) ++early[t];
                        ++rets[t];
                    }
                    else if (o.first == 'w')
                    {
                        L.wait();
                        if (L.count() > 0) ++early[t];
                        ++rets[t];
                    }
                    else
                        tries[t].push_back(L.try_wait() ? '1' : '0');
                }
                ctl.end();
            });
        if (!ctl.quiesce()) { std::printf("HARNESS-ERROR quiesce-start case=%d\n", cs); return 3; }
        ctl.release_all_parked();
        std::ostringstream sched, sites, views;
        // view of all threads at every stable point (nobody blocked inside resume): the model predicts it
        auto view = [&] {
            std::ostringstream v;
            std::lock_guard g(ctl.m);
            for (size_t i = 0; i < ctl.s.size(); ++i)
            {
                auto& x = ctl.s[i];
                if (i) v << ",";
                if (x.st == vctl::DONE) v << "D";
                else if (x.st == vctl::BLOCKED) v << pos[i].load() << (x.waiting_on ? "X" : "B");
                else if (x.st == vctl::PARKED) v << pos[i].load() << "." << x.site;
                else v << "?";
            }
            return v.str();
        };
        bool first = true, firstv = true;
        int nsteps = 0;
        bool stuck = false;
        for (;;)
        {
            if (!ctl.quiesce())
            {
                std::printf("MONITOR latch_lockstep:stuck case=%d (a thread neither parks, blocks nor ends)\n", cs);
                std::fflush(stdout);
                std::_Exit(0);
            }
            auto p = ctl.parked();
            int t = -1;
            {
                // a resumer blocked on a still running target: only the target may run now
                std::lock_guard l(ctl.m);
                for (auto& x : ctl.s)
                    if (x.st == vctl::BLOCKED && x.waiting_on != nullptr)
                        for (int i = 0; i < (int) ctl.s.size(); ++i)
                            if (ctl.s[i].st == vctl::PARKED && ctl.s[i].agent == x.waiting_on && ctl.s[i].site == 9001) t = i;
            }
            bool forced = t >= 0;
            if (!forced)
            {
                views << (firstv ? "" : ";") << view();
                firstv = false;
            }
            if (p.empty())
            {
                if (!ctl.blocked().empty()) stuck = true;
                break;
            }
            if (t < 0) t = p[rng.below(p.size())];
            int site = ctl.site_of(t);
            sched << (first ? "" : ",") << t << (forced ? "f" : "");
            sites << (first ? "" : ",") << site;
            first = false;
            ctl.release(t);
            if (++nsteps > 2000)
            {
                std::printf("MONITOR latch_lockstep:livelock case=%d\n", cs);
                std::fflush(stdout);
                std::_Exit(0);
            }
        }
        if (stuck)
        {
            std::printf("MONITOR latch_lockstep:stuck case=%d count=%d: the count reached zero but a waiter stays blocked\n", cs, C);
            std::fflush(stdout);
            std::_Exit(0);
        }
        for (auto& x : th) x.join();
        for (int t = 0; t < T; ++t)
            if (early[t])
            {
                std::printf("MONITOR latch_lockstep:early_return case=%d count=%d thread=%d: wait/arrive_and_wait returned while the counter was > 0 (sched %s)\n",
                    cs, C, t, sched.str().c_str());
                std::fflush(stdout);
                std::_Exit(0);
            }
        std::ostringstream in, out;
        in << "IN LLOCK " << cs << " " << C << " " << T;
        for (auto& p : progs) in << " " << p;
        in << " " << (sched.str().empty() ? "-" : sched.str());
        out << "OUT LLOCK " << cs << " sites=" << (sites.str().empty() ? "-" : sites.str()) << " try=";
        for (int t = 0; t < T; ++t) out << (t ? "|" : "") << tries[t];
        out << " rets=";
        for (int t = 0; t < T; ++t) out << (t ? "," : "") << rets[t];
        out << " views=" << views.str();
        std::printf("%s\n%s\n", in.str().c_str(), out.str().c_str());
        std::fflush(stdout);
    }
    return 0;
}
