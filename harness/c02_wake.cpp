// harness/c02_wake.cpp — C02 (no lost wake-up): the TRACE harness of c01_trace.cpp, built as its
// own binary; tools/props/c02.py runs it in mode `c02` (wake-ups racing with suspension: direct
// set_thread_state pairs, cv / latch with wakers on other workers and on plain OS threads, heavier
// perturbation at the hand-off windows 201..206, quiescence watchdog, replay of the model's
// phase-scoped wake-up witness).
#include "c01_trace.cpp"
