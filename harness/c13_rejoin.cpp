// C13 harness, re-join after interruption, WITH the event trace for the model's acceptor.
// Scenario (same as `c13_join rejoin`): a joiner J is interrupted while it waits inside t.join();
// thread_interrupted leaves join(), the handle is still joinable, J catches and calls t.join() again.
// Variants: 0 the second registration is forced between the target's callback invocation and its next
// look at the list (hand-shakes inside the hooks), 1 second registration before the target exits,
// 2 free running with seeded delays at the hook sites.
//
//   c13_rejoin <seed> <n>        prints per case
//     IN REJOIN <id> var=<v> E=<tok>,<tok>,...      the logged events in GLOBAL log order
//     OUT REJOIN <id> accept                         (what the model's acceptor must answer)
//     MON RJT <id> var= returned= early= joinable_after= caught= attempts= adds= refused= setup= unknown=
//
// Tokens (role letter + event; the role is the task that EXECUTED the hook, taken from get_self_id()):
//   J (the joiner task)   Ja1/Ja0 1316 add_thread_exit_callback accepted/refused (the c-th accepted one is
//                         generation c of the model)  Jc0/Jc1 1306 completion-flag read  Jw 1303 suspension
//                         returned  Jr 1304 join returns  Jx 1322 thread_interrupted thrown at an
//                         interruption point of J
//   T (the target task)   Tb 1315 thread function returned  Tk 1312 callback taken, about to be invoked
//                         Tf 1305 completion flag stored (inside the callback)  Tp 1313 callback returned
//                         Tn 1314 exit callbacks marked as run
//   I (the interrupter)   Ii 1321 interruption request recorded (wake-up not yet issued)
//   ?<site>               any other C13 site (1300..1339) executed by J or T that the vocabulary does not
//                         know (1301, 1302, 1311 are known and carry no information: dropped)
// Recycled thread_data objects: only events logged after the creation of the target / after the
// joiner's own start marker are attributed to T / J (an object's previous occupant may still log
// events of its exit phase after the case began).
#include "common/ctl.hpp"

#include <pika/execution.hpp>
#include <pika/init.hpp>
#include <pika/thread.hpp>

#include <atomic>
#include <chrono>
#include <cstdio>
#include <mutex>
#include <string>
#include <thread>
#include <vector>

using namespace std::chrono_literals;
using clk = std::chrono::steady_clock;
namespace ex = pika::execution::experimental;
namespace tt = pika::this_thread::experimental;

struct Ev
{
    int site;
    void const* obj;
    std::uint64_t a;
    void const* self;    // the pika task that executed the hook (nullptr: not a pika task)
};
static std::mutex g_evm;
static std::vector<Ev> g_ev;
static std::atomic<int> g_delay[40];
static std::atomic<bool> g_logging{false};

static void spin_us(int us)
{
    if (us <= 0) return;
    auto t0 = clk::now();
    while (clk::now() - t0 < std::chrono::microseconds(us)) {}
}

struct Rejoin
{
    std::atomic<bool> on{false};
    std::atomic<int> variant{0};
    std::atomic<void const*> U{nullptr};
    std::atomic<void const*> J{nullptr};
    std::atomic<bool> tstarted{false}, at1313{false};
    std::atomic<int> n1301{0}, nadd{0}, nref{0}, n1313{0}, nchk0{0}, nran{0};
    void reset()
    {
        on = false; U = nullptr; J = nullptr; tstarted = false; at1313 = false;
        n1301 = 0; nadd = 0; nref = 0; n1313 = 0; nchk0 = 0; nran = 0;
    }
};
static Rejoin g_rj;

template <typename F>
static bool wait_bounded(F&& f, int ms)
{
    auto t0 = clk::now();
    while (!f())
    {
        if (clk::now() - t0 > std::chrono::milliseconds(ms)) return false;
        std::this_thread::yield();
    }
    return true;
}

static void rejoin_hook(int site, void const* obj, std::uint64_t a, void const* self)
{
    void const* U = g_rj.U.load();
    void const* J = g_rj.J.load();
    if (U == nullptr) return;
    if (site == 1301 && obj == U && self == J)
    {
        int k = ++g_rj.n1301;
        if (g_rj.variant == 0 && k == 2) wait_bounded([] { return g_rj.at1313.load(); }, 5000);
    }
    else if (site == 1316 && obj == U && self == J) { if (a) ++g_rj.nadd; else ++g_rj.nref; }
    else if (site == 1315 && obj == U) g_rj.tstarted = true;
    else if (site == 1314 && obj == U && g_rj.tstarted) ++g_rj.nran;
    else if (site == 1313 && obj == U && g_rj.tstarted)
    {
        int k = ++g_rj.n1313;
        if (g_rj.variant == 0 && k == 1)
        {
            g_rj.at1313 = true;
            wait_bounded([] { return g_rj.nadd.load() + g_rj.nref.load() >= 2; }, 5000);
        }
    }
    else if (site == 1306 && J != nullptr && obj == J && a == 0) ++g_rj.nchk0;
}

static void hookfn(int site, void const* obj, std::uint64_t a, std::uint64_t)
{
    if (site < 1300 || site >= 1340) return;
    void const* self = pika::threads::detail::get_self_id().get();
    if (g_rj.on.load(std::memory_order_relaxed)) rejoin_hook(site, obj, a, self);
    if (g_logging.load(std::memory_order_relaxed))
    {
        std::lock_guard<std::mutex> l(g_evm);
        g_ev.push_back({site, obj, a, self});
    }
    if (site == 1301 || site == 1302 || site == 1311 || site == 1312 || site == 1313 || site == 1321 || site == 1305)
        spin_us(g_delay[site - 1300].load(std::memory_order_relaxed));
}

static std::atomic<long> g_beat{0};
static std::atomic<bool> g_done{false};
static char g_what[64] = "start";
static void watchdog()
{
    long last = -1;
    int same = 0;
    while (!g_done)
    {
        std::this_thread::sleep_for(100ms);
        long b = g_beat.load();
        if (b == last) { if (++same >= 300) { std::printf("MON %s HANG\n", g_what); std::fflush(stdout); _exit(0); } }
        else { same = 0; last = b; }
    }
}

static void set_delays(vctl::Rng& rng)
{
    for (int s : {1, 2, 5, 11, 12, 13, 21})
    {
        int d = 0;
        switch (rng.below(4))
        {
        case 0: d = 0; break;
        case 1: d = (int) rng.below(5); break;
        case 2: d = (int) rng.below(40); break;
        default: d = (int) rng.below(200); break;
        }
        g_delay[s] = d;
    }
}
static void clear_delays() { for (auto& d : g_delay) d = 0; }

static std::size_t log_size()
{
    std::lock_guard<std::mutex> l(g_evm);
    return g_ev.size();
}

// the merged event sequence of the case, in log order
static std::string trace_of(void const* U, void const* J, std::size_t tbase, std::size_t jbase, int& unknown)
{
    std::string s;
    std::lock_guard<std::mutex> l(g_evm);
    bool tstarted = false, jended = false;
    for (std::size_t i = 0; i < g_ev.size(); ++i)
    {
        auto const& e = g_ev[i];
        char buf[24];
        buf[0] = 0;
        if (e.self == J && J != nullptr && i >= jbase)
        {
            // J's thread function returned: what J logs from here on is its own exit phase (J as the
            // target of main's join), not part of the scenario
            if (e.site == 1315 && e.obj == J) jended = true;
            if (jended) {}
            else if (e.site == 1316 && e.obj == U) std::snprintf(buf, sizeof buf, "Ja%d", e.a ? 1 : 0);
            else if (e.site == 1306 && e.obj == J) std::snprintf(buf, sizeof buf, "Jc%d", e.a ? 1 : 0);
            else if (e.site == 1303 && e.obj == J) std::snprintf(buf, sizeof buf, "Jw");
            else if (e.site == 1304 && e.obj == J) std::snprintf(buf, sizeof buf, "Jr");
            else if (e.site == 1322 && e.obj == J) std::snprintf(buf, sizeof buf, "Jx");
            else if (e.site == 1301 || e.site == 1302) {}
            else { std::snprintf(buf, sizeof buf, "?%d", e.site); ++unknown; }
        }
        else if (e.self == U && i >= tbase)
        {
            if (e.site == 1315 && e.obj == U) { tstarted = true; std::snprintf(buf, sizeof buf, "Tb"); }
            else if (!tstarted) {}
            else if (e.site == 1312 && e.obj == U) std::snprintf(buf, sizeof buf, "Tk");
            else if (e.site == 1305 && e.obj == J) std::snprintf(buf, sizeof buf, "Tf");
            else if (e.site == 1313 && e.obj == U) std::snprintf(buf, sizeof buf, "Tp");
            else if (e.site == 1314 && e.obj == U) std::snprintf(buf, sizeof buf, "Tn");
            else if (e.site == 1311 && e.obj == U) {}
            else { std::snprintf(buf, sizeof buf, "?%d", e.site); ++unknown; }
        }
        else if (e.site == 1321 && e.obj == J && J != nullptr && i >= jbase)
            std::snprintf(buf, sizeof buf, "Ii");
        if (buf[0]) { s += buf; s += ','; }
    }
    if (s.empty()) return "-";
    s.pop_back();
    return s;
}

static void run_cases(std::uint64_t seed, int n)
{
    vctl::Rng rng(seed * 0x9E3779B97F4A7C15ull + 13);
    int notret = 0;
    for (int cs = 0; cs < n && notret < 5; ++cs)
    {
        std::snprintf(g_what, sizeof g_what, "RJT %d", cs);
        g_beat++;
        int variant = cs < 3 ? cs : (int) rng.below(3);
        g_rj.reset();
        g_rj.variant = variant;
        if (variant == 2) set_delays(rng); else clear_delays();
        {
            std::lock_guard<std::mutex> l(g_evm);
            g_ev.clear();
        }
        g_logging = true;
        std::atomic<bool> go{false}, finished{false}, returned{false}, giveup{false};
        std::atomic<int> early{-1}, ncaught{0}, attempts{0}, joinable_after{-1};
        std::atomic<std::size_t> jbase{0};
        pika::thread target([&] {
            while (!go) pika::this_thread::yield();
            finished = true;
        });
        void const* U = target.native_handle().get();
        // everything this object logged so far belongs to its previous occupant: the new occupant's
        // first hook is 1315 (its body calls no hooked code)
        std::size_t tbase = log_size();
        g_rj.U = U;
        g_rj.on = true;
        pika::thread joiner([&] {
            jbase = log_size();
            g_rj.J = pika::threads::detail::get_self_id().get();
            for (;;)
            {
                try
                {
                    ++attempts;
                    target.join();
                    early = finished.load() ? 0 : 1;
                    joinable_after = target.joinable() ? 1 : 0;
                    returned = true;
                    break;
                }
                catch (pika::thread_interrupted const&)
                {
                    ++ncaught;
                    if (giveup) break;
                }
            }
        });
        bool w1 = wait_bounded([&] { pika::this_thread::yield(); return g_rj.nchk0.load() >= 1; }, 5000);
        spin_us((int) rng.below(60));
        bool intr_ok = true;
        try { joiner.interrupt(); } catch (pika::exception const&) { intr_ok = false; }
        bool w2 = true;
        if (variant == 0) w2 = wait_bounded([&] { pika::this_thread::yield(); return ncaught.load() >= 1; }, 5000);
        else if (variant == 1) w2 = wait_bounded([&] { pika::this_thread::yield(); return g_rj.nadd.load() >= 2; }, 5000);
        go = true;
        bool ret = wait_bounded([&] { pika::this_thread::yield(); return returned.load(); }, 3000);
        if (ret)
        {
            // complete the target's records (bounded): its exit phase may still be running
            wait_bounded([&] { pika::this_thread::yield(); return g_rj.nran.load() >= 1; }, 2000);
        }
        // the trace ends here: what follows (giving up on a hung joiner, main's own joins) is not part of the scenario
        g_logging = false;
        void const* J = g_rj.J.load();
        int unknown = 0;
        std::string tr = trace_of(U, J, tbase, jbase.load(), unknown);
        int adds = g_rj.nadd.load(), refs = g_rj.nref.load();
        if (!ret)
        {
            ++notret;
            giveup = true;
            try { joiner.interrupt(); } catch (pika::exception const&) {}
        }
        joiner.join();
        wait_bounded([&] { pika::this_thread::yield(); return finished.load(); }, 5000);
        if (target.joinable()) target.join();
        wait_bounded([&] { pika::this_thread::yield(); return g_rj.nran.load() >= 1; }, 2000);
        g_rj.on = false;
        clear_delays();
        std::printf("IN REJOIN %d var=%d E=%s\n", cs, variant, tr.c_str());
        std::printf("OUT REJOIN %d accept\n", cs);
        std::printf("MON RJT %d var=%d returned=%d early=%d joinable_after=%d caught=%d attempts=%d adds=%d refused=%d setup=%d%d%d unknown=%d\n",
            cs, variant, (int) ret, early.load(), joinable_after.load(), ncaught.load(), attempts.load(), adds, refs,
            (int) w1, (int) intr_ok, (int) w2, unknown);
        std::fflush(stdout);
        pika::this_thread::yield();
    }
}

int main(int argc, char** argv)
{
    std::uint64_t seed = argc > 1 ? std::strtoull(argv[1], nullptr, 10) : 1;
    int n = argc > 2 ? std::atoi(argv[2]) : 100;
    char* av[] = {argv[0], (char*) "--pika:threads=4", nullptr};
    int ac = 2;
    pika::verif::hook.store(&hookfn, std::memory_order_release);
    std::thread wd(watchdog);
    pika::start(ac, av);
    ex::thread_pool_scheduler sched{};
    tt::sync_wait(ex::schedule(sched) | ex::then([&] { run_cases(seed, n); }));
    pika::finalize();
    int rc = pika::stop();
    g_done = true;
    wd.join();
    std::printf("END rejoin rc=%d\n", rc);
    return 0;
}
