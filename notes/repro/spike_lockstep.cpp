#include <atomic>
#include <condition_variable>
#include <cstdio>
#include <cstdint>
#include <mutex>
#include <optional>
#include <random>
#include <thread>
#include <vector>
#include <chrono>
// ---- controller ----
struct Slot { std::mutex m; std::condition_variable cv; int state = 0; /*0 running,1 parked,2 done*/ bool go = false; int site = 0; };
static std::vector<Slot>* slots; static thread_local int my = -1;
static std::mutex cm; static std::condition_variable ccv;
static void vpoint(int site) {
    if (my < 0) return; Slot& s = (*slots)[my];
    { std::unique_lock l(s.m); s.site = site; s.state = 1; s.go = false; }
    { std::lock_guard g(cm); } ccv.notify_one();
    std::unique_lock l(s.m); s.cv.wait(l, [&]{ return s.go; }); s.state = 0;
}
#define VPOINT(x) vpoint(x)
#include <pika/concurrency/detail/contiguous_index_queue.hpp>
int main(int argc, char** argv) {
    int T = 4, range = 12; unsigned seed = argc > 1 ? atoi(argv[1]) : 1; int runs = argc > 2 ? atoi(argv[2]) : 200;
    std::mt19937 rng(seed); long steps = 0; auto t0 = std::chrono::steady_clock::now();
    for (int r = 0; r < runs; ++r) {
        pika::concurrency::detail::contiguous_index_queue<> q(0, range);
        std::vector<Slot> sl(T); slots = &sl; std::vector<std::vector<int>> got(T);
        std::vector<std::thread> th;
        for (int t = 0; t < T; ++t) th.emplace_back([&, t]{ my = t; vpoint(0);
            for (int k = 0; k < 5; ++k) { auto v = ((t + k) & 1) ? q.pop_left() : q.pop_right(); got[t].push_back(v ? (int)*v : -1); }
            Slot& s = sl[t]; { std::lock_guard l(s.m); s.state = 2; } { std::lock_guard g(cm); } ccv.notify_one(); });
        for (;;) {
            // wait until all threads parked or done
            { std::unique_lock g(cm); ccv.wait(g, [&]{ for (auto& s : sl) { std::lock_guard l(s.m); if (s.state == 0) return false; } return true; }); }
            std::vector<int> parked; for (int t = 0; t < T; ++t) { std::lock_guard l(sl[t].m); if (sl[t].state == 1) parked.push_back(t); }
            if (parked.empty()) break;
            int t = parked[rng() % parked.size()]; ++steps;
            { std::lock_guard l(sl[t].m); sl[t].go = true; sl[t].state = 0; } sl[t].cv.notify_one();
        }
        for (auto& x : th) x.join();
        std::vector<int> cnt(range, 0); for (auto& g : got) for (int v : g) if (v >= 0) cnt[v]++;
        for (int i = 0; i < range; ++i) if (cnt[i] > 1) { std::printf("DUP %d\n", i); return 1; }
    }
    double dt = std::chrono::duration<double>(std::chrono::steady_clock::now() - t0).count();
    std::printf("runs=%d steps=%ld time=%.2fs  %.1f us/step\n", runs, steps, dt, 1e6 * dt / steps);
}
