#include <pika/execution.hpp>
#include <pika/init.hpp>
#include <pika/mpi.hpp>
#include <mpi.h>
#include <atomic>
#include <cstdio>
#include <thread>
#include <chrono>
namespace ex = pika::execution::experimental;
namespace mpi = pika::mpi::experimental;
namespace tt = pika::this_thread::experimental;
static std::atomic<int> nval{0}, nerr{0}, nstop{0};
struct rcv {
  template <class... T> void set_value(T&&...) && noexcept { ++nval; }
  template <class E> void set_error(E&&) && noexcept { ++nerr; }
  void set_stopped() && noexcept { ++nstop; }
  constexpr ex::empty_env get_env() const noexcept { return {}; } };
int pika_main() {
    MPI_Comm comm = MPI_COMM_WORLD;
    MPI_Comm_set_errhandler(comm, MPI_ERRORS_RETURN);
    {
        mpi::enable_polling ep;
        int* data = nullptr; int count = 0;
        auto s = mpi::transform_mpi(ex::just(data, count, MPI_DATATYPE_NULL, -1, comm), MPI_Ibcast);
        auto os = ex::connect(std::move(s), rcv{});
        ex::start(os);
        std::this_thread::sleep_for(std::chrono::milliseconds(200));
        std::printf("failing MPI call: set_value=%d set_error=%d set_stopped=%d (expected exactly one signal)\n", nval.load(), nerr.load(), nstop.load());
        std::fflush(stdout);
    }
    pika::finalize(); return 0;
}
int main(int argc, char** argv) {
    int provided; MPI_Init_thread(&argc, &argv, MPI_THREAD_MULTIPLE, &provided);
    int r = pika::init(pika_main, argc, argv);
    MPI_Finalize(); return r;
}
