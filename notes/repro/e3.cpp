#include <pika/execution.hpp>
#include <pika/init.hpp>
#include <pika/runtime.hpp>
#include <pika/stop_token.hpp>
#include <pika/modules/resource_partitioner.hpp>
#include <pika/topology/topology.hpp>
#include <atomic>
#include <chrono>
#include <cstdio>
#include <thread>
using namespace std::chrono_literals;
namespace ex = pika::execution::experimental;
namespace tt = pika::this_thread::experimental;
int main(int argc, char** argv) {
    std::string mode = argv[1];
    if (mode == "oscb") {
        pika::stop_source src; pika::stop_token t = src.get_token();
        std::atomic<bool> in_cb{false}, cb_done{false}, dtor_returned_during_cb{false};
        auto* cb = new pika::stop_callback(t, [&]{ in_cb = true; std::this_thread::sleep_for(500ms); cb_done = true; });
        std::thread A([&]{ src.request_stop(); });
        while (!in_cb) std::this_thread::yield();
        std::thread B([&]{ delete cb; if (!cb_done) dtor_returned_during_cb = true; });
        B.join(); A.join();
        std::printf("destructor on OS thread B returned while callback still running on OS thread A: %d (expected 0)\n", (int)dtor_returned_during_cb.load());
        return 0;
    }
    if (mode == "numa") {
        pika::init_params p; 
        pika::start(argc - 1, argv + 1, p);
        auto& rp = pika::resource::get_partitioner();
        auto const& topo = pika::threads::detail::get_topology();
        std::size_t n = pika::get_num_worker_threads();
        for (std::size_t i = 0; i < n; ++i) {
            auto m = rp.get_pu_mask(i);
            std::printf("worker %zu reported_pu=%zu mask_first=%zu\n", i, rp.get_pu_num(i), pika::threads::detail::find_first(m));
        }
        pika::finalize(); return pika::stop();
    }
    if (mode == "refuse") {
        pika::init_params p;
        p.rp_callback = [](auto& rp, pika::program_options::variables_map const&) {
            rp.create_thread_pool("default", pika::resource::scheduling_policy::local_priority_fifo,
                pika::threads::scheduler_mode::default_mode & ~pika::threads::scheduler_mode::enable_elasticity);
        };
        char* av[] = {argv[0], (char*)"--pika:threads=4", nullptr}; 
        pika::start(2, av, p);
        auto& tp = pika::resource::get_thread_pool("default");
        pika::error_code ec(pika::throwmode::lightweight);
        std::thread th([&]{ tp.suspend_processing_unit_direct(1, ec); });
        th.join();
        auto st = tp.get_scheduler()->get_state(1).load();
        std::printf("refused: ec set=%d; worker 1 runtime_state=%d (running=%d sleeping=%d)\n", (int)(bool)ec, (int)st, (int)pika::runtime_state::running, (int)pika::runtime_state::sleeping);
        std::fflush(stdout);
        if (st != pika::runtime_state::running) { pika::error_code ec2(pika::throwmode::lightweight); tp.resume_processing_unit_direct(1, ec2); }
        pika::finalize(); return pika::stop();
    }
}
