#define PIKA_DETAIL_ENABLE_ANY_SENDER_SBO
#include <pika/execution.hpp>
#include <cstdio>
namespace ex = pika::execution::experimental;
static int ctor = 0, dtor = 0;
struct small_sender {
    int id;
    small_sender(int i) : id(i) { ++ctor; }
    small_sender(small_sender&& o) noexcept : id(o.id) { ++ctor; }
    small_sender(small_sender const& o) : id(o.id) { ++ctor; }
    ~small_sender() { ++dtor; }
    template <template <class...> class T, template <class...> class V> using value_types = V<T<>>;
    template <template <class...> class V> using error_types = V<std::exception_ptr>;
    static constexpr bool sends_done = false;
    template <class R> struct op { std::decay_t<R> r; void start() & noexcept { ex::set_value(std::move(r)); } };
    template <class R> op<R> connect(R&& r) && { return {std::forward<R>(r)}; }
    template <class R> op<R> connect(R&& r) const& { return {std::forward<R>(r)}; }
};
int main() {
    {
        ex::unique_any_sender<> a{small_sender{1}};
        ex::unique_any_sender<> b{std::move(a)};
        ex::unique_any_sender<> c; c = std::move(b);
    }
    std::printf("inline storage: constructions=%d destructions=%d (expected equal)\n", ctor, dtor);
}
