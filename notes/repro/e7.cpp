#include <pika/execution.hpp>
#include <pika/init.hpp>
#include <pika/thread.hpp>
#include <atomic>
#include <cfenv>
#include <cstdio>
#include <vector>
namespace ex = pika::execution::experimental;
namespace tt = pika::this_thread::experimental;
int main(int argc, char** argv) {
    char* av[] = {argv[0], (char*)"--pika:threads=4", nullptr}; int ac = 2;
    pika::start(ac, av);
    ex::thread_pool_scheduler sched{};
    std::atomic<int> changed_after_resume{0}, migrated{0}, leaked_into_other{0}, total{0};
    std::vector<ex::unique_any_sender<>> v;
    for (int i = 0; i < 400; ++i) {
        v.emplace_back(ex::schedule(sched) | ex::then([&, i]{
            if (i % 2 == 0) {
                std::fesetround(FE_UPWARD);
                auto w0 = pika::get_worker_thread_num();
                for (int k = 0; k < 50; ++k) {
                    pika::this_thread::yield();
                    if (std::fegetround() != FE_UPWARD) { ++changed_after_resume; break; }
                }
                if (pika::get_worker_thread_num() != w0) ++migrated;
                std::fesetround(FE_TONEAREST);
                ++total;
            } else {
                for (int k = 0; k < 50; ++k) { if (std::fegetround() != FE_TONEAREST) { ++leaked_into_other; break; } pika::this_thread::yield(); }
            }
        }));
    }
    tt::sync_wait(ex::when_all_vector(std::move(v)));
    std::printf("tasks that set FE_UPWARD: %d, migrated: %d, saw their rounding mode changed after a yield: %d (expected 0); other tasks that saw a foreign rounding mode: %d (expected 0)\n",
        total.load(), migrated.load(), changed_after_resume.load(), leaked_into_other.load());
    std::fflush(stdout);
    pika::finalize(); return pika::stop();
}
