#include <pika/execution.hpp>
#include <pika/init.hpp>
#include <pika/runtime.hpp>
#include <pika/modules/resource_partitioner.hpp>
#include <pika/threading_base/scheduler_base.hpp>
#include <pika/threading_base/thread_pool_base.hpp>
#include <atomic>
#include <chrono>
#include <cstdio>
#include <thread>
#include <unistd.h>
namespace ex = pika::execution::experimental;
using namespace std::chrono_literals;
int main(int argc, char** argv)
{
    pika::init_params p;
    p.cfg = {"pika.os_threads=4"};
    p.rp_callback = [](auto& rp, pika::program_options::variables_map const&) {
        using pika::threads::scheduler_mode;
        rp.create_thread_pool("w", pika::resource::scheduling_policy::local_priority_fifo, scheduler_mode::default_mode | scheduler_mode::enable_elasticity);
        int added = 0;
        for (auto const& d : rp.sockets()) for (auto const& c : d.cores()) for (auto const& pu : c.pus()) if (added < 2) { rp.add_resource(pu, "w"); ++added; }
    };
    char* av[] = {argv[0], (char*) "--pika:ignore-process-mask", nullptr};
    pika::start(nullptr, 2, av, p);
    auto& tp = pika::resource::get_thread_pool("w");
    std::atomic<int> done{0};
    int hangs = 0;
    for (int trial = 0; trial < 50 && !hangs; ++trial)
    {
        done = 0;
        bool other = argc > 1;
        if (!other) tp.suspend_processing_unit_direct(0);
        ex::thread_pool_scheduler sched{&tp};
        for (int i = 0; i < 50; ++i)
            ex::execute(ex::with_priority(sched, pika::execution::thread_priority::low), [&] { std::this_thread::sleep_for(20us); ++done; });
        std::atomic<bool> ret{false};
        std::thread s([&] { tp.suspend_processing_unit_direct(1); ret = true; });
        auto t0 = std::chrono::steady_clock::now();
        while (!ret && std::chrono::steady_clock::now() - t0 < 5s) std::this_thread::sleep_for(1ms);
        if (!ret)
        {
            std::printf("trial %d: suspend_processing_unit_direct(1) has not returned after 5 s: states %d,%d done=%d/50 queue_length=%lld\n", trial,
                (int) tp.get_scheduler()->get_state(0).load(), (int) tp.get_scheduler()->get_state(1).load(), done.load(),
                (long long) tp.get_scheduler()->get_queue_length());
            std::fflush(stdout);
            ++hangs;
            tp.resume_processing_unit_direct(0);    // another worker drains the low-priority queue
            auto t1 = std::chrono::steady_clock::now();
            while (!ret && std::chrono::steady_clock::now() - t1 < 5s) std::this_thread::sleep_for(1ms);
            std::printf("  after resuming PU 0: suspend returned=%d done=%d states %d,%d\n", (int) ret.load(), done.load(),
                (int) tp.get_scheduler()->get_state(0).load(), (int) tp.get_scheduler()->get_state(1).load());
            std::fflush(stdout);
            if (!ret) _exit(3);
        }
        s.join();
        tp.resume_processing_unit_direct(0);
        tp.resume_processing_unit_direct(1);
        while (done < 50) std::this_thread::sleep_for(1ms);
    }
    std::printf("hangs=%d\n", hangs);
    pika::finalize();
    return pika::stop();
}
