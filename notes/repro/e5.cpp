#include <pika/execution.hpp>
#include <pika/init.hpp>
#include <pika/condition_variable.hpp>
#include <pika/mutex.hpp>
#include <pika/thread.hpp>
#include <atomic>
#include <chrono>
#include <cstdio>
#include <random>
#include <thread>
using namespace std::chrono_literals;
using clk = std::chrono::steady_clock;
namespace ex = pika::execution::experimental;
namespace tt = pika::this_thread::experimental;
int main(int argc, char** argv) {
    int trials = argc > 1 ? atoi(argv[1]) : 2000;
    char* av[] = {argv[0], (char*)"--pika:threads=4", nullptr}; int ac = 2;
    pika::start(ac, av);
    ex::thread_pool_scheduler sched{};
    pika::condition_variable_any cv; pika::mutex m;
    std::atomic<int> armed{0}; std::atomic<bool> stop{false};
    int early = 0;
    std::thread notifier([&]{ std::mt19937 rng(7); int last = 0;
        while (!stop) { int a = armed.load(); if (a == last) { std::this_thread::yield(); continue; } last = a;
            auto d = std::chrono::microseconds(150 + rng() % 120); auto t0 = clk::now(); while (clk::now() - t0 < d) {}
            cv.notify_one(); } });
    tt::sync_wait(ex::schedule(sched) | ex::then([&]{
        for (int i = 1; i <= trials; ++i) {
            auto* done = new std::atomic<bool>(false);
            pika::thread th([done]{ auto t0 = clk::now(); while (clk::now() - t0 < 3ms) pika::this_thread::yield(); done->store(true); });
            { std::unique_lock<pika::mutex> lk(m); armed = i; cv.wait_for(lk, 200us); }
            th.join();
            if (!done->load()) ++early;
            while (!done->load()) pika::this_thread::yield();
            pika::this_thread::yield();
        }
    }));
    stop = true; notifier.join();
    std::printf("trials=%d  thread::join() returned before the thread function finished: %d (expected 0)\n", trials, early);
    std::fflush(stdout);
    pika::finalize(); return pika::stop();
}
