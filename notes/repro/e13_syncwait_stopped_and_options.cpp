#include <pika/execution.hpp>
#include <pika/init.hpp>
#include <cstdio>
namespace ex = pika::execution::experimental;
namespace tt = pika::this_thread::experimental;
struct stopped_sender {
    using is_sender = void;
    template <template <class...> class T, template <class...> class V> using value_types = V<T<int>>;
    template <template <class...> class V> using error_types = V<std::exception_ptr>;
    static constexpr bool sends_done = true;
    template <class R> struct op { std::decay_t<R> r; void start() & noexcept { ex::set_stopped(std::move(r)); } };
    template <class R> op<R> connect(R&& r) const { return {std::forward<R>(r)}; }
};
int main(int argc, char** argv) {
    std::string mode = argc > 1 ? argv[1] : "sw";
    if (mode == "sw") {
        char* av[] = {argv[0], (char*)"--pika:threads=2", nullptr}; int ac = 2;
        pika::start(ac, av);
        std::printf("calling sync_wait(stopped)\n"); std::fflush(stdout);
        try { int v = tt::sync_wait(stopped_sender{}); std::printf("returned %d\n", v); } catch (...) { std::printf("threw\n"); }
        std::fflush(stdout);
        pika::finalize(); return pika::stop();
    } else {
        pika::start(argc - 1, argv + 1);
        std::printf("runtime up with %zu workers\n", pika::get_num_worker_threads()); std::fflush(stdout);
        pika::finalize(); int r = pika::stop(); std::printf("stop() returned %d\n", r); return r;
    }
}
