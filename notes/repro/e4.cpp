#include <pika/execution.hpp>
#include <pika/init.hpp>
#include <pika/condition_variable.hpp>
#include <pika/latch.hpp>
#include <pika/mutex.hpp>
#include <pika/thread.hpp>
#include <atomic>
#include <chrono>
#include <cstdio>
#include <random>
#include <thread>
using namespace std::chrono_literals;
using clk = std::chrono::steady_clock;
namespace ex = pika::execution::experimental;
namespace tt = pika::this_thread::experimental;
int main(int argc, char** argv) {
    int trials = argc > 1 ? atoi(argv[1]) : 3000;
    char* av[] = {argv[0], (char*)"--pika:threads=4", nullptr}; int ac = 2;
    pika::start(ac, av);
    ex::thread_pool_scheduler sched{};
    pika::condition_variable_any cv; pika::mutex m;
    std::atomic<int> armed{0}; std::atomic<bool> stop{false};
    std::atomic<pika::latch*> cur{nullptr}; std::atomic<int> curseq{0};
    int early = 0; int signaled = 0;
    std::thread notifier([&]{ std::mt19937 rng(7); int last = 0;
        while (!stop) { int a = armed.load(); if (a == last) { std::this_thread::yield(); continue; } last = a;
            auto d = std::chrono::microseconds(150 + rng() % 120); auto t0 = clk::now(); while (clk::now() - t0 < d) {}
            cv.notify_one(); } });
    std::thread releaser([&]{ int lastq = 0;
        while (!stop) { int q = curseq.load(); if (q == lastq) { std::this_thread::yield(); continue; } lastq = q; pika::latch* l = cur.load();
            std::this_thread::sleep_for(5ms); l->count_down(1); } });
    tt::sync_wait(ex::schedule(sched) | ex::then([&]{
        for (int i = 1; i <= trials; ++i) {
            pika::latch& L = *new pika::latch(1);
            { std::unique_lock<pika::mutex> lk(m); armed = i;
              auto st = cv.wait_for(lk, 200us); if (st == pika::cv_status::no_timeout) ++signaled; }
            cur = &L; curseq = i;                      // releaser will count down 5 ms from now
            auto t0 = clk::now(); L.wait(); auto dt = clk::now() - t0;
            if (dt < 2ms && !L.try_wait()) ++early;
            while (!L.try_wait()) pika::this_thread::yield();   // make sure releaser is done with L
            pika::this_thread::yield();
        }
    }));
    stop = true; notifier.join(); releaser.join();
    std::printf("trials=%d timed-wait notified=%d  latch.wait() returned with counter>0: %d (expected 0)\n", trials, signaled, early);
    std::fflush(stdout);
    pika::finalize(); return pika::stop();
}
