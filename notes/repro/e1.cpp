#include <pika/execution.hpp>
#include <pika/init.hpp>
#include <pika/semaphore.hpp>
#include <pika/stop_token.hpp>
#include <pika/thread.hpp>
#include <atomic>
#include <chrono>
#include <cstdio>
#include <cstring>
#include <thread>
namespace ex = pika::execution::experimental;
namespace tt = pika::this_thread::experimental;
using namespace std::chrono_literals;

struct stopped_sender {
    using is_sender = void;
    template <template <class...> class T, template <class...> class V> using value_types = V<T<int>>;
    template <template <class...> class V> using error_types = V<std::exception_ptr>;
    static constexpr bool sends_done = true;
    template <class R> struct op { std::decay_t<R> r; void start() & noexcept { ex::set_stopped(std::move(r)); } };
    template <class R> op<R> connect(R&& r) const { return {std::forward<R>(r)}; }
};
struct rcv { int* what; 
  void set_value(int const&) && noexcept { *what = 1; }
  void set_value(int&&) && noexcept { *what = 1; }
  void set_error(std::exception_ptr) && noexcept { *what = 2; }
  template <class E> void set_error(E&&) && noexcept { *what = 2; }
  void set_stopped() && noexcept { *what = 3; }
  constexpr ex::empty_env get_env() const noexcept { return {}; } };

int main(int argc, char** argv) {
    std::string mode = argv[1]; 
    char* av[] = {argv[0], (char*)"--pika:threads=4", nullptr}; int ac = 2;
    if (mode == "stopsrc") {
        pika::stop_source a; pika::stop_token ta = a.get_token();
        pika::stop_source b;
        a = b;                       // a drops its old state
        std::printf("after a=b: old token stop_possible=%d (expected 0)\n", (int)ta.stop_possible());
        pika::stop_source c; pika::stop_token tc = c.get_token();
        c = std::move(b);
        std::printf("after c=move(b): old token stop_possible=%d (expected 0)\n", (int)tc.stop_possible());
        return 0;
    }
    pika::start(ac, av);
    ex::thread_pool_scheduler sched{};
    if (mode == "sem") {
        pika::counting_semaphore<> sem(0);
        bool r = false;
        auto s1 = ex::schedule(sched) | ex::then([&]{ r = sem.try_acquire_for(2s); }) | ex::ensure_started();
        std::this_thread::sleep_for(300ms);
        tt::sync_wait(ex::schedule(sched) | ex::then([&]{ sem.release(1); }));
        tt::sync_wait(std::move(s1));
        bool again = false;
        tt::sync_wait(ex::schedule(sched) | ex::then([&]{ again = sem.try_acquire(); }));
        std::printf("try_acquire_for released-before-deadline returned %d (expected 1); permit still there=%d\n", (int)r, (int)again);
    } else if (mode == "cbhang") {
        std::atomic<bool> done{false};
        pika::stop_token t; { pika::stop_source s; t = s.get_token(); }
        std::printf("stop_possible=%d\n", (int)t.stop_possible());
        auto s1 = ex::schedule(sched) | ex::then([&]{ { pika::stop_callback cb(t, []{}); } done = true; }) | ex::ensure_started();
        std::this_thread::sleep_for(1500ms);
        std::printf("stop_callback dtor returned=%d (expected 1)\n", (int)done.load());
        std::fflush(stdout); if (!done) _exit(3);
        tt::sync_wait(std::move(s1));
    } else if (mode == "bulk") {
        std::atomic<std::uint64_t> calls{0};
        std::size_t n = (std::size_t(1) << 32) + 5;
        tt::sync_wait(ex::schedule(sched) | ex::bulk(n, [&](std::size_t){ calls.fetch_add(1, std::memory_order_relaxed); }));
        std::printf("bulk n=2^32+5 calls=%llu\n", (unsigned long long)calls.load());
    } else if (mode == "split") {
        int what = 0;
        auto sp = ex::split(stopped_sender{});
        auto os = ex::connect(sp, rcv{&what});
        std::printf("starting split(stopped)\n"); std::fflush(stdout);
        ex::start(os);
        std::printf("split(stopped) -> receiver got %d (1 value,2 error,3 stopped; expected 3)\n", what);
    } else if (mode == "ens") {
        int what = 0;
        auto sp = ex::ensure_started(stopped_sender{});
        auto os = ex::connect(std::move(sp), rcv{&what});
        ex::start(os);
        std::printf("ensure_started(stopped) -> receiver got %d (expected 3)\n", what);
    }
    std::fflush(stdout);
    pika::finalize();
    return pika::stop();
}
