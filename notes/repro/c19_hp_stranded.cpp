#include <pika/execution.hpp>
#include <pika/init.hpp>
#include <pika/runtime.hpp>
#include <pika/modules/resource_partitioner.hpp>
#include <pika/threading_base/scheduler_base.hpp>
#include <pika/threading_base/thread_pool_base.hpp>
#include <atomic>
#include <chrono>
#include <cstdio>
#include <thread>
#include <unistd.h>
namespace ex = pika::execution::experimental;
using namespace std::chrono_literals;
int main(int argc, char** argv)
{
    pika::init_params p;
    p.cfg = {"pika.os_threads=4", "pika.thread_queue.high_priority_queues!=1"};
    p.rp_callback = [](auto& rp, pika::program_options::variables_map const&) {
        using pika::threads::scheduler_mode;
        rp.create_thread_pool("w", pika::resource::scheduling_policy::local_priority_fifo, scheduler_mode::default_mode | scheduler_mode::enable_elasticity);
        int added = 0;
        for (auto const& d : rp.sockets()) for (auto const& c : d.cores()) for (auto const& pu : c.pus()) if (added < 2) { rp.add_resource(pu, "w"); ++added; }
    };
    char* av[] = {argv[0], (char*) "--pika:ignore-process-mask", nullptr};
    pika::start(nullptr, 2, av, p);
    auto& tp = pika::resource::get_thread_pool("w");
    std::atomic<int> done{0};
    int prio = argc > 1 ? std::atoi(argv[1]) : 1;   // 1 = high, 0 = normal
    tp.suspend_processing_unit_direct(0);
    std::printf("PU 0 suspended: states %d,%d\n", (int) tp.get_scheduler()->get_state(0).load(), (int) tp.get_scheduler()->get_state(1).load());
    ex::thread_pool_scheduler sched{&tp};
    for (int i = 0; i < 20; ++i)
        ex::execute(ex::with_priority(sched, prio ? pika::execution::thread_priority::high : pika::execution::thread_priority::normal), [&] { ++done; });
    auto t0 = std::chrono::steady_clock::now();
    while (done < 20 && std::chrono::steady_clock::now() - t0 < 5s) std::this_thread::sleep_for(1ms);
    std::printf("after 5 s (or all done): done=%d/20 states %d,%d queue_length=%lld (w0 %lld, w1 %lld)\n", done.load(),
        (int) tp.get_scheduler()->get_state(0).load(), (int) tp.get_scheduler()->get_state(1).load(),
        (long long) tp.get_scheduler()->get_queue_length(), (long long) tp.get_scheduler()->get_queue_length(0), (long long) tp.get_scheduler()->get_queue_length(1));
    tp.resume_processing_unit_direct(0);
    t0 = std::chrono::steady_clock::now();
    while (done < 20 && std::chrono::steady_clock::now() - t0 < 5s) std::this_thread::sleep_for(1ms);
    std::printf("after resuming PU 0: done=%d/20\n", done.load());
    std::fflush(stdout);
    pika::finalize();
    return pika::stop();
}
