#include <pika/execution.hpp>
#include <pika/init.hpp>
#include <cstdio>
#include <vector>
namespace ex = pika::execution::experimental;
namespace tt = pika::this_thread::experimental;
struct stopped_sender {
    using is_sender = void;
    template <template <class...> class T, template <class...> class V> using value_types = V<T<int>>;
    template <template <class...> class V> using error_types = V<std::exception_ptr>;
    static constexpr bool sends_done = true;
    template <class R> struct op { std::decay_t<R> r; void start() & noexcept { ex::set_stopped(std::move(r)); } };
    template <class R> op<R> connect(R&& r) const { return {std::forward<R>(r)}; }
};
struct rcv { int* what;
  template <class... T> void set_value(T&&...) && noexcept { *what = 1; }
  template <class E> void set_error(E&&) && noexcept { *what = 2; }
  void set_stopped() && noexcept { *what = 3; }
  constexpr ex::empty_env get_env() const noexcept { return {}; } };
int main(int argc, char** argv) {
    std::string mode = argv[1]; int what = 0;
    if (mode == "then") {
        auto s = stopped_sender{} | ex::then([](int x){ return x + 1; });
        auto os = ex::connect(std::move(s), rcv{&what}); ex::start(os);
        std::printf("then(stopped) -> %d (expected 3)\n", what);
    } else if (mode == "wav_direct") {
        std::vector<stopped_sender> v(2);
        auto os = ex::connect(ex::when_all_vector(std::move(v)), rcv{&what}); ex::start(os);
        std::printf("when_all_vector(stopped leaf) -> %d (expected 3)\n", what);
    } else if (mode == "wav_then") {
        using S = decltype(stopped_sender{} | ex::then([](int x){ return x + 1; }));
        std::vector<ex::unique_any_sender<int>> v; v.emplace_back(stopped_sender{} | ex::then([](int x){ return x + 1; })); v.emplace_back(ex::just(3));
        auto os = ex::connect(ex::when_all_vector(std::move(v)), rcv{&what}); ex::start(os);
        std::printf("when_all_vector(any(then(stopped)), just) -> %d (expected 3)\n", what);
    } else if (mode == "wa_then") {
        auto os = ex::connect(ex::when_all(stopped_sender{} | ex::then([](int x){ return x + 1; }), ex::just(3)), rcv{&what}); ex::start(os);
        std::printf("when_all(then(stopped), just) -> %d (expected 3)\n", what);
    } else if (mode == "let") {
        auto os = ex::connect(stopped_sender{} | ex::let_value([](int& x){ return ex::just(x); }), rcv{&what}); ex::start(os);
        std::printf("let_value(stopped) -> %d (expected 3)\n", what);
    } else if (mode == "wav_then_plain") {
        auto mk = []{ return stopped_sender{} | ex::then([](int x){ return x + 1; }); };
        std::vector<decltype(mk())> v; v.push_back(mk()); v.push_back(mk());
        auto os = ex::connect(ex::when_all_vector(std::move(v)), rcv{&what}); ex::start(os);
        std::printf("when_all_vector(then(stopped)) -> %d (expected 3)\n", what);
    }
    std::fflush(stdout); return 0;
}
