// E4 replay (detail API): a second exit callback registered while run_thread_exit_callbacks is between
// front()() and pop_front(): pop_front removes the NEW entry, the old one is invoked again.
#include <pika/init.hpp>
#include <pika/thread.hpp>
#include <pika/threading_base/thread_helpers.hpp>
#include <atomic>
#include <cstdio>
std::atomic<int> n1{0}, n2{0};
int pika_main(int, char**)
{
    {
        std::atomic<bool> go{false};
        pika::thread t([&] { while (!go.load()) pika::this_thread::yield(); });
        auto id = t.native_handle();
        pika::threads::detail::add_thread_exit_callback(id, [&, id] {
            if (n1.fetch_add(1) == 0)
            {
                bool ok = pika::threads::detail::add_thread_exit_callback(id, [&] { n2++; });
                std::printf("second callback registered from inside the window: %d\n", (int) ok);
            }
        });
        go = true;
        t.join();
        for (int i = 0; i < 200000 && n1.load() < 2; ++i) pika::this_thread::yield();
        for (int i = 0; i < 20000; ++i) pika::this_thread::yield();
    }
    std::printf("f1 invoked %d times, f2 invoked %d times\n", n1.load(), n2.load());
    std::fflush(stdout);
    pika::finalize();
    return 0;
}
int main(int argc, char** argv) { return pika::init(pika_main, argc, argv); }
