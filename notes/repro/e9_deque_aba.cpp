#include <atomic>
#include <cstdio>
#include <thread>
#include <vector>
static thread_local bool victim = false; static std::atomic<int> stage{0};
static void vpause(void* prev, void* pn, unsigned tag, void* r) {
    if (!victim || stage.load() != 0) return;
    std::printf("A: parked before link CAS: node %p .right expected (%p,%u) -> (%p,%u)\n", prev, pn, tag, r, tag + 1); std::fflush(stdout);
    stage = 1; while (stage.load() != 2) std::this_thread::yield();
}
static void vdone() { if (victim && stage.load() == 2) { std::printf("A: stale link CAS SUCCEEDED\n"); std::fflush(stdout); stage = 3; } }
#define VPAUSE(a,b,c,d) vpause((void*)(a),(void*)(b),(unsigned)(c),(void*)(d))
#define VDONE() vdone()
#include <pika/concurrency/deque.hpp>
int main() {
    pika::concurrency::detail::deque<int> d(16);
    int v; auto popr = [&]{ bool ok = d.pop_right(v); std::printf("B: pop_right -> %s %d\n", ok ? "ok" : "EMPTY", ok ? v : -1); };
    auto popl = [&]{ bool ok = d.pop_left(v);  std::printf("B: pop_left  -> %s %d\n", ok ? "ok" : "EMPTY", ok ? v : -1); };
    d.push_right(100 /*z*/); d.push_right(1 /*a -> R0*/); d.push_right(2 /*x -> X*/);
    popr();                       // pops x(2); R0.right keeps stale (X,1); X's node goes to the freelist
    d.push_left(3 /*w takes X's old node*/);
    std::thread A([&]{ victim = true; d.push_right(4 /*n*/); });
    while (stage.load() != 1) std::this_thread::yield();
    popr();                       // B helps stabilise, pops n(4)
    popl();                       // pops w(3): frees X's old address
    popr();                       // pops a(1): frees R0's address (now top of freelist)
    d.push_right(5 /*a2: reuses R0's node*/); d.push_right(6 /*x2: reuses X's node; R0'.right=(X,1) again*/);
    stage = 2;                    // release A: its CAS expects (X,1)
    A.join();
    std::printf("-- now deque should contain 100,5,6; draining from the left:\n");
    for (int i = 0; i < 6; ++i) { bool ok = d.pop_left(v); std::printf("   pop_left -> %s %d\n", ok ? "ok" : "EMPTY", ok ? v : -1); if (!ok) break; }
    std::fflush(stdout); _exit(0);
}
