#include <pika/execution.hpp>
#include <pika/init.hpp>
#include <atomic>
#include <cstdio>
#include <cstdlib>
namespace ex = pika::execution::experimental;
namespace tt = pika::this_thread::experimental;
int main(int argc, char** argv) {
    unsigned long long nn = std::strtoull(argv[1], nullptr, 10);
    char* av[] = {argv[0], (char*)"--pika:threads=4", nullptr}; int ac = 2;
    pika::start(ac, av);
    ex::thread_pool_scheduler sched{};
    std::atomic<std::uint64_t> calls[4] = {};
    std::uint32_t n = (std::uint32_t) nn;
    tt::sync_wait(ex::schedule(sched) | ex::bulk(n, [&](std::uint32_t i){ if ((i & 0xfffff) == 0) calls[pika::get_worker_thread_num()].fetch_add(1, std::memory_order_relaxed); }));
    std::printf("bulk n=%u sampled calls=%llu expected=%llu\n", n, (unsigned long long)(calls[0]+calls[1]+calls[2]+calls[3]), (unsigned long long)((std::uint64_t(n)+0xfffff)>>20));
    std::fflush(stdout);
    pika::finalize();
    return pika::stop();
}
