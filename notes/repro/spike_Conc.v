From Coq Require Import List Arith Lia Bool.
Import ListNotations.

Section Conc.
  Variables (G L O : Type).                 (* shared state, thread-local state, per-step oracle *)
  Variable tstep : O -> nat -> G -> L -> G * L.
  Definition locals := nat -> L.
  Definition upd (ls : locals) (t : nat) (l : L) : locals := fun t' => if Nat.eqb t' t then l else ls t'.
  Definition step (c : G * locals) (so : nat * O) : G * locals :=
    let '(t, o) := so in let '(g, ls) := c in
    let '(g', l') := tstep o t g (ls t) in (g', upd ls t l').
  Definition run (sched : list (nat * O)) (c : G * locals) := fold_left step sched c.

  Variable Inv : G -> locals -> Prop.
  Hypothesis Hstep : forall o t g ls, Inv g ls ->
     Inv (fst (tstep o t g (ls t))) (upd ls t (snd (tstep o t g (ls t)))).
  Theorem run_inv : forall sched g ls, Inv g ls -> Inv (fst (run sched (g, ls))) (snd (run sched (g, ls))).
  Proof.
    induction sched as [|[t o] s IH]; intros g ls H; cbn [run fold_left]; [exact H|].
    unfold run in IH. cbn [step]. specialize (Hstep o t g ls H).
    destruct (tstep o t g (ls t)) as [g' l'] eqn:E. cbn [fst snd] in Hstep. apply IH. exact Hstep.
  Qed.
End Conc.

(* ---- index queue ---- *)
Inductive side := SL | SR.
Inductive pc := Idle | Loaded (s : side) (ef el : nat).
Record shared := { first : nat; last : nat; log : list nat }.

Definition iq_tstep (o : bool * side) (_ : nat) (g : shared) (l : pc) : shared * pc :=
  match l with
  | Idle => (g, Loaded (snd o) (first g) (last g))
  | Loaded s ef el =>
      if el <=? ef then (g, Idle)
      else if (Nat.eqb ef (first g) && Nat.eqb el (last g) && negb (fst o))%bool then
        match s with
        | SL => ({| first := S ef; last := el; log := ef :: log g |}, Idle)
        | SR => ({| first := ef; last := el - 1; log := (el - 1) :: log g |}, Idle)
        end
      else (g, Loaded s (first g) (last g))
  end.

Definition IQInv (f0 l0 : nat) (g : shared) (_ : nat -> pc) : Prop :=
  f0 <= first g /\ first g <= last g /\ last g <= l0 /\ NoDup (log g) /\
  (forall x, In x (log g) <-> (f0 <= x < first g \/ last g <= x < l0)).

Lemma iq_step f0 l0 o t g ls : IQInv f0 l0 g ls ->
  IQInv f0 l0 (fst (iq_tstep o t g (ls t))) (upd _ ls t (snd (iq_tstep o t g (ls t)))).
Proof.
  unfold IQInv, iq_tstep. intros (H1 & H2 & H3 & Hnd & Hin).
  destruct (ls t) as [|s ef el]; cbn [fst snd]; [tauto|].
  destruct (el <=? ef) eqn:E1; cbn [fst snd]; [tauto|].
  apply Nat.leb_gt in E1.
  destruct (Nat.eqb ef (first g) && Nat.eqb el (last g) && negb (fst o))%bool eqn:E2; cbn [fst snd]; [|tauto].
  apply andb_prop in E2 as [E2 _]. apply andb_prop in E2 as [Ea Eb].
  apply Nat.eqb_eq in Ea, Eb. subst ef el.
  destruct s; cbn [fst snd first last log].
  - repeat split; try lia.
    + constructor; [|exact Hnd]. intro Hc. apply Hin in Hc. lia.
    + intros [<-|Hx]; [lia|]. apply Hin in Hx. lia.
    + intros Hx. destruct (Nat.eq_dec (first g) x); [left; auto|right; apply Hin; lia].
  - repeat split; try lia.
    + constructor; [|exact Hnd]. intro Hc. apply Hin in Hc. lia.
    + intros [<-|Hx]; [lia|]. apply Hin in Hx. lia.
    + intros Hx. destruct (Nat.eq_dec (last g - 1) x); [left; auto|right; apply Hin; lia].
Qed.

Theorem iq_all_schedules f0 l0 sched : f0 <= l0 ->
  let c := run _ _ _ iq_tstep sched ({| first := f0; last := l0; log := [] |}, fun _ => Idle) in
  NoDup (log (fst c)) /\ (forall x, In x (log (fst c)) <-> (f0 <= x < first (fst c) \/ last (fst c) <= x < l0)).
Proof.
  intros H c. 
  assert (IQInv f0 l0 (fst c) (snd c)) as (_&_&_&A&B).
  { apply run_inv with (Inv := IQInv f0 l0); [intros; apply iq_step; assumption|].
    unfold IQInv; cbn. repeat split; try lia; try constructor; try (intros []); lia. }
  split; assumption.
Qed.
Print Assumptions iq_all_schedules.
