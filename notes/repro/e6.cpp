#include <pika/semaphore.hpp>
#include <atomic>
#include <chrono>
#include <cstdio>
#include <thread>
using namespace std::chrono_literals;
using clk = std::chrono::steady_clock;
int main() {
    pika::counting_semaphore<> sem(0);
    std::atomic<bool> released{false}, xdone{false}; bool r = false;
    std::thread X([&]{ r = sem.try_acquire_for(300ms); xdone = true; });
    std::this_thread::sleep_for(50ms);
    auto t0 = clk::now();
    std::thread Y([&]{ sem.release(1); released = true; });
    for (int i = 0; i < 30 && !released; ++i) std::this_thread::sleep_for(100ms);
    double ms = std::chrono::duration<double, std::milli>(clk::now() - t0).count();
    std::printf("X timed acquire returned=%d (done=%d); release() on OS thread Y returned=%d after %.0f ms (expected: immediately)\n", (int)r, (int)xdone.load(), (int)released.load(), ms);
    std::fflush(stdout);
    _exit(released ? 0 : 3);
}
