From Coq Require Import List Arith Lia Bool.
Import ListNotations.

(* generic framework (as in Conc.v spike) *)
Section Conc.
  Variables (G L O : Type).
  Variable tstep : O -> nat -> G -> L -> G * L.
  Definition locals := nat -> L.
  Definition upd (ls : locals) (t : nat) (l : L) : locals := fun t' => if Nat.eqb t' t then l else ls t'.
  Definition step (c : G * locals) (so : nat * O) : G * locals :=
    let '(t, o) := so in let '(g, ls) := c in
    let '(g', l') := tstep o t g (ls t) in (g', upd ls t l').
  Definition run (sched : list (nat * O)) (c : G * locals) := fold_left step sched c.
  Variable Inv : G -> locals -> Prop.
  Hypothesis Hstep : forall o t g ls, Inv g ls ->
     Inv (fst (tstep o t g (ls t))) (upd ls t (snd (tstep o t g (ls t)))).
  Theorem run_inv : forall sched g ls, Inv g ls -> Inv (fst (run sched (g, ls))) (snd (run sched (g, ls))).
  Proof.
    induction sched as [|[t o] s IH]; intros g ls H; cbn [run fold_left]; [exact H|].
    unfold run in IH. cbn [step]. specialize (Hstep o t g ls H).
    destruct (tstep o t g (ls t)) as [g' l'] eqn:E. cbn [fst snd] in Hstep. apply IH. exact Hstep.
  Qed.
End Conc.

(* split / ensure_started hand-off.  Thread 0 = predecessor completion; threads >=1 = consumers. *)
Record shared := { stored : bool;           (* v emplaced *)
                   done : bool;             (* predecessor_done *)
                   lock : option nat;       (* spinlock owner *)
                   conts : list nat;        (* stored continuations (consumer ids) *)
                   sig : list nat }.        (* ghost log: consumers signalled, in order *)

Inductive pc :=
 (* predecessor *)  | P0 | P1 | P2 | P3 | P4 (todo : list nat) | PEnd
 (* consumer    *)  | C0 | C1 | C2 | CEnd.

Definition set_lock g o := {| stored := stored g; done := done g; lock := o; conts := conts g; sig := sig g |}.

Definition tstep (_ : unit) (t : nat) (g : shared) (l : pc) : shared * pc :=
  if Nat.eqb t 0 then
    match l with
    | P0 => ({| stored := true; done := done g; lock := lock g; conts := conts g; sig := sig g |}, P1)
    | P1 => ({| stored := stored g; done := true; lock := lock g; conts := conts g; sig := sig g |}, P2)
    | P2 => match lock g with None => (set_lock g (Some 0), P3) | Some _ => (g, P2) end   (* lock_guard: acquire *)
    | P3 => (set_lock g None, P4 (conts g))                                                (* release; read vector *)
    | P4 [] => (g, PEnd)
    | P4 (c :: r) => ({| stored := stored g; done := done g; lock := lock g; conts := conts g; sig := c :: sig g |}, P4 r)
    | _ => (g, l)
    end
  else
    match l with
    | C0 => if done g then ({| stored := stored g; done := done g; lock := lock g; conts := conts g; sig := t :: sig g |}, CEnd)
            else (g, C1)
    | C1 => match lock g with None => (set_lock g (Some t), C2) | Some _ => (g, C1) end
    | C2 => if done g
            then ({| stored := stored g; done := done g; lock := None; conts := conts g; sig := t :: sig g |}, CEnd)
            else ({| stored := stored g; done := done g; lock := None; conts := t :: conts g; sig := sig g |}, CEnd)
    | _ => (g, l)
    end.

Definition init_l (t : nat) : pc := if Nat.eqb t 0 then P0 else C0.

(* consumer t (>=1) has been, or is committed to be, signalled exactly once *)
Definition pending_of (l0 : pc) : list nat := match l0 with P4 r => r | _ => [] end.

Definition HInv (g : shared) (ls : nat -> pc) : Prop :=
  (done g = true -> stored g = true) /\
  (forall t, In t (sig g) -> stored g = true) /\
  NoDup (sig g ++ pending_of (ls 0)) /\
  (* who holds the lock *)
  (forall t, lock g = Some t <-> (t = 0 /\ ls 0 = P3) \/ (t <> 0 /\ ls t = C2)) /\
  (* predecessor progress vs flag *)
  (done g = true <-> (ls 0 <> P0 /\ ls 0 <> P1)) /\
  (* where each finished consumer is accounted for *)
  (forall t, t <> 0 -> ls t = CEnd ->
       In t (sig g) \/ In t (pending_of (ls 0)) \/
       (In t (conts g) /\ (ls 0 = P0 \/ ls 0 = P1 \/ ls 0 = P2 \/ ls 0 = P3))) /\
  (forall t, t <> 0 -> ls t <> CEnd -> ~ In t (sig g) /\ ~ In t (conts g) /\ ~ In t (pending_of (ls 0))) /\
  (* continuations stored are consumers that finished, unsignalled; vector frozen once pred past P3 *)
  (forall t, In t (conts g) -> t <> 0 /\ ls t = CEnd) /\
  NoDup (conts g) /\
  (forall t, In t (conts g) -> In t (sig g) \/ In t (pending_of (ls 0)) \/ (ls 0 = P0 \/ ls 0 = P1 \/ ls 0 = P2 \/ ls 0 = P3)) /\
  ((ls 0 = P0 \/ ls 0 = P1 \/ ls 0 = P2 \/ ls 0 = P3) -> forall t, In t (conts g) -> ~ In t (sig g)) /\
  (ls 0 = P0 \/ ls 0 = P1 \/ ls 0 = P2 \/ ls 0 = P3 \/ (exists r, ls 0 = P4 r) \/ ls 0 = PEnd) /\
  (forall t, t <> 0 -> ls t = C0 \/ ls t = C1 \/ ls t = C2 \/ ls t = CEnd).
